package datacodec

// Bounded stand-in (labelled bounded, never counted as proved) for the contracts of writeBigInt / readBigInt that
// govc takes by assumption: minimal two's-complement big-endian encoding of arbitrary-precision integers (CQL varint,
// v5 spec section 6 - the encoding of Java's BigInteger.toByteArray()).
// Bound: every integer in [-70000, 70000], and +-2^k, +-2^k +-1 for k <= 300.
// The reference below is written independently of the library (arithmetic on big.Int only: no Bytes/SetBytes).

import (
	"math/big"
	"testing"
)

// refTwos returns the minimal two's complement big-endian bytes of n.
func refTwos(n *big.Int) []byte {
	// smallest length L >= 1 with -2^(8L-1) <= n < 2^(8L-1)
	L := 1
	for {
		lim := new(big.Int).Lsh(big.NewInt(1), uint(8*L-1))
		if n.Cmp(new(big.Int).Neg(lim)) >= 0 && n.Cmp(lim) < 0 {
			break
		}
		L++
	}
	m := new(big.Int).Set(n)
	if m.Sign() < 0 {
		m.Add(m, new(big.Int).Lsh(big.NewInt(1), uint(8*L)))
	}
	out := make([]byte, L)
	base := big.NewInt(256)
	for i := L - 1; i >= 0; i-- {
		q, r := new(big.Int).QuoRem(m, base, new(big.Int))
		out[i] = byte(r.Int64())
		m = q
	}
	return out
}

func refValue(b []byte) *big.Int {
	v := big.NewInt(0)
	for _, x := range b {
		v.Mul(v, big.NewInt(256))
		v.Add(v, big.NewInt(int64(x)))
	}
	if len(b) > 0 && b[0]&0x80 != 0 {
		v.Sub(v, new(big.Int).Lsh(big.NewInt(1), uint(8*len(b))))
	}
	return v
}

func checkOne(t *testing.T, n *big.Int) {
	want := refTwos(n)
	got := writeBigInt(n)
	if string(got) != string(want) {
		t.Fatalf("writeBigInt(%s) = %x, minimal two's complement is %x", n, got, want)
	}
	back := readBigInt(want)
	if back == nil || back.Cmp(n) != 0 {
		t.Fatalf("readBigInt(%x) = %v, want %s", want, back, n)
	}
	if refValue(got).Cmp(n) != 0 {
		t.Fatalf("reference decoding of %x is %s, want %s", got, refValue(got), n)
	}
}

func TestGovcBoundedVarint(t *testing.T) {
	count := 0
	for i := int64(-70000); i <= 70000; i++ {
		checkOne(t, big.NewInt(i))
		count++
	}
	for k := uint(0); k <= 300; k++ {
		p := new(big.Int).Lsh(big.NewInt(1), k)
		for _, d := range []int64{-1, 0, 1} {
			for _, sgn := range []int64{1, -1} {
				n := new(big.Int).Add(p, big.NewInt(d))
				n.Mul(n, big.NewInt(sgn))
				checkOne(t, n)
				count++
			}
		}
	}
	if writeBigInt(nil) != nil || readBigInt(nil) != nil || readBigInt([]byte{}) != nil {
		t.Fatal("nil / empty handling")
	}
	t.Logf("GOVC-BOUNDED cases=%d", count)
}
