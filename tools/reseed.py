#!/usr/bin/env python3
"""Re-run the checks against every recorded seeded change (the must-fail corpus).

usage: reseed.py [name-prefix ...]      (run it alone: solver timeouts under load look like detections)

For each /verif/seeded/<name>/ with a patch.diff: a scratch worktree of /repo HEAD, the patch applied, the checks
that meta.json lists under checks_with_patch re-run against it with the current bin/govc; prints which still report
a violation and rewrites meta.json's checks_with_patch / caught_by. A change that was caught and no longer is means an
engine or contract change opened a hole (this is how the vacuous length lemmas of session 4 should have been found).
"""
import json, os, shutil, subprocess, sys, tempfile

# no retry of undecided queries here: on a changed tree an obligation that no longer holds would cost three budgets
ENV = dict(os.environ, GOFLAGS="-mod=mod", GOPROXY="off", GOSUMDB="off", GOTOOLCHAIN="local", GOVC_NORETRY="1")

def sh(cmd, cwd=None, timeout=3600):
    p = subprocess.run(cmd, shell=True, cwd=cwd, env=ENV, capture_output=True, text=True, timeout=timeout)
    return p.returncode, p.stdout + p.stderr

def main():
    prefixes = sys.argv[1:]
    names = sorted(os.listdir("/verif/seeded"))
    lost = []
    for name in names:
        d = f"/verif/seeded/{name}"
        if prefixes and not any(name.startswith(p) for p in prefixes):
            continue
        if not os.path.exists(f"{d}/patch.diff") or not os.path.exists(f"{d}/meta.json"):
            continue
        meta = json.load(open(f"{d}/meta.json"))
        checks = list(meta.get("checks_with_patch", {}).keys()) or [meta.get("property")]
        was = set(meta.get("caught_by", []))
        wt = tempfile.mkdtemp(prefix="reseedwt", dir="/tmp"); os.rmdir(wt)
        sh(f"git -C /repo worktree add -q --detach {wt} HEAD")
        try:
            rc, o = sh(f"git apply {d}/patch.diff", cwd=wt)
            if rc != 0:
                print(f"{name}: patch no longer applies"); continue
            sv = tempfile.mkdtemp(prefix="reseedverif", dir="/tmp")
            for sub in ("baseline", "bounded"):
                shutil.copytree(f"/verif/{sub}", f"{sv}/{sub}")
            shutil.copy("/verif/known_findings.json", sv)
            os.makedirs(f"{sv}/evidence")
            results = {}
            for c in checks:
                rc, o = sh(f"/verif/bin/govc check {c} -repo {wt} -verif {sv}", cwd="/verif")
                viol = [l for l in o.splitlines() if l.startswith("VIOLATION")]
                results[c] = {"exit": rc, "violations": [v[:400].replace(sv, "/verif") for v in viol][:12], "summary": (o.strip().splitlines() or [""])[-1]}
            shutil.rmtree(sv, ignore_errors=True)
        finally:
            sh(f"git -C /repo worktree remove --force {wt}")
        now = {c for c, r in results.items() if r["exit"] != 0}
        # a detection made only of undecided obligations may be a timeout (no retry here): look at it before believing it
        soft = {c for c in now if not any("status=failed" in v or "cover:missing" in v or "status=vacuous" in v for v in results[c]["violations"])}
        meta["checks_with_patch"] = results
        meta["caught_by"] = sorted(now)
        json.dump(meta, open(f"{d}/meta.json", "w"), indent=1)
        tag = "caught by " + ",".join(sorted(now)) if now else "NOT CAUGHT"
        if soft:
            tag += "  (undecided only: " + ",".join(sorted(soft)) + ")"
        if was and not now:
            tag += "  <-- was caught by " + ",".join(sorted(was))
            lost.append(name)
        print(f"{name}: {tag}", flush=True)
    print("LOST:", lost)

main()
