#!/usr/bin/env python3
"""Confirm a seeded mutation and run the checks against it.

usage: seed.py <property> <source dir with patch.diff, demo_test.go, notes.md> <name> [check ids...]

1. in a scratch worktree of /repo: apply the patch, build, run the existing test suite (must pass), run the demo
   (must fail); without the patch the demo must pass;
2. apply the patch to /repo, run the given checks (default: the property's), undo (git checkout);
3. write /verif/seeded/<name>/{patch.diff, demo_test.go, notes.md, meta.json}.
"""
import json, os, re, shutil, subprocess, sys, tempfile

ENV = dict(os.environ, GOFLAGS="-mod=mod", GOPROXY="off", GOSUMDB="off", GOTOOLCHAIN="local")

def sh(cmd, cwd=None, timeout=1800):
    p = subprocess.run(cmd, shell=True, cwd=cwd, env=ENV, capture_output=True, text=True, timeout=timeout)
    return p.returncode, p.stdout + p.stderr

def main():
    prop, src, name = sys.argv[1:4]
    checks = sys.argv[4:] or [prop]
    out = f"/verif/seeded/{name}"
    os.makedirs(out, exist_ok=True)
    for f in ("patch.diff", "demo_test.go", "notes.md"):
        if os.path.exists(os.path.join(src, f)) and os.path.abspath(src) != os.path.abspath(out):
            shutil.copy(os.path.join(src, f), os.path.join(out, f))
    demo = open(os.path.join(out, "demo_test.go")).read()
    m = re.search(r"^//.*?\b([a-z/0-9]+)/?\s*(?:package|directory|dir|\(|$)", demo.splitlines()[0])
    first = demo.splitlines()[0]
    pkgdir = None
    for cand in ("compression/lz4", "compression/snappy", "primitive", "datatype", "message", "frame", "segment", "crc", "datacodec", "client"):
        if re.search(r"\b" + re.escape(cand) + r"\b", first):
            pkgdir = cand
            break
    meta = {"property": prop, "name": name, "first_line_of_demo": first, "demo_package_dir": pkgdir}
    wt = tempfile.mkdtemp(prefix="seedwt", dir="/tmp")
    os.rmdir(wt)
    rc, o = sh(f"git -C /repo worktree add -q --detach {wt} HEAD")
    try:
        demo_path = os.path.join(wt, pkgdir, "zz_seed_demo_test.go")
        shutil.copy(os.path.join(out, "demo_test.go"), demo_path)
        rc, o = sh(f"go test -vet=off -count=1 -run 'Demo|Seed|Mutation|TestM[0-9]' ./{pkgdir}/ 2>&1 | tail -15", cwd=wt)
        rc2, o2 = sh(f"go test -vet=off -count=1 ./{pkgdir}/ 2>&1 | tail -5", cwd=wt)
        meta["demo_on_clean_tree"] = "pass" if ("ok " in o2 and "FAIL" not in o2) else "FAIL: " + o2[-400:]
        rc, o = sh(f"git apply {out}/patch.diff", cwd=wt)
        meta["patch_applies"] = rc == 0
        rc, o = sh("go build ./... 2>&1 | tail -5", cwd=wt)
        meta["builds"] = "FAIL" not in o and rc == 0 and o.strip() == ""
        os.remove(demo_path)
        rc, o = sh("go test -vet=off -count=1 -p 1 ./... 2>&1 | tail -12", cwd=wt)
        meta["existing_suite_with_patch"] = "pass" if "FAIL" not in o else "FAIL: " + o[-600:]
        shutil.copy(os.path.join(out, "demo_test.go"), demo_path)
        rc, o = sh(f"go test -vet=off -count=1 ./{pkgdir}/ 2>&1 | tail -25", cwd=wt)
        meta["demo_with_patch"] = "fails (as required)" if "FAIL" in o else "PASSES (mutation not demonstrated): " + o[-300:]
        meta["demo_output_tail"] = o[-800:]
        # run the checks against the scratch worktree (patch applied, demo removed): the same govc binary, contracts,
        # baselines and known findings as for /repo, evidence written to a scratch directory
        os.remove(demo_path)
        sv = tempfile.mkdtemp(prefix="seedverif", dir="/tmp")
        for d in ("baseline", "bounded"):
            shutil.copytree(f"/verif/{d}", f"{sv}/{d}")
        shutil.copy("/verif/known_findings.json", sv)
        os.makedirs(f"{sv}/evidence")
        results = {}
        for c in checks:
            rc, o = sh(f"/verif/bin/govc check {c} -repo {wt} -verif {sv}", cwd="/verif")
            viol = [l for l in o.splitlines() if l.startswith("VIOLATION")]
            results[c] = {"exit": rc, "violations": [v[:400].replace(sv, "/verif") for v in viol][:12], "summary": (o.strip().splitlines() or [""])[-1]}
        shutil.rmtree(sv, ignore_errors=True)
    finally:
        sh(f"git -C /repo worktree remove --force {wt}")
    meta["checks_with_patch"] = results
    meta["caught_by"] = [c for c, r in results.items() if r["exit"] != 0]
    meta["commands"] = ["git worktree add (scratch); git apply patch.diff; go build ./...; go test -vet=off -count=1 -p 1 ./...; go test ./<pkg>/ with demo",
                        "in the same scratch worktree (patch applied): bin/govc check <id> -repo <worktree> -verif <scratch copy of baseline/known findings>"]
    json.dump(meta, open(os.path.join(out, "meta.json"), "w"), indent=1)
    print(json.dumps({k: meta[k] for k in ("name", "demo_on_clean_tree", "builds", "existing_suite_with_patch", "demo_with_patch", "caught_by")}, indent=1))

main()
