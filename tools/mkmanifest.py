#!/usr/bin/env python3
"""Regenerates /verif/MANIFEST.json from the table below (kept next to the code so it stays valid)."""
import json, subprocess, os

BASELINE_OFF = json.load(open('/root/.vp/BASELINE.json'))['cmd'] if os.path.exists('/root/.vp/BASELINE.json') else "cd /repo && go test ./..."
ENV = "GOFLAGS=-mod=mod GOPROXY=off GOSUMDB=off GOTOOLCHAIN=local"

claimed = {
 "C04": dict(
   text="Proof, function by function, that no decoding entry point can panic: every make/reflect.MakeSlice size, index, slice bound, nil dereference, type assertion, division and explicit panic in the decoders of primitive, datatype, message, frame, segment, crc, compression and the non-reflective part of datacodec is an SMT obligation generated from go/ssa of the current tree over a prophecy-stream model of io.Reader (all byte strings, no bound); counting loops carry machine-checked progress obligations. Unit tests sample inputs; the obligations quantify over all of them.",
   note="Assumed: go/ssa semantics, the three solvers, govc; assumed contracts of encoding/binary, io, bytes, fmt, reflect.TypeOf/MakeSlice, lz4/snappy block functions; parameters (readers, headers, codecs) non-nil; sizes < 2^47; callees without contract are havocked over their static mod-set; reflective injectors (datacodec containers as Go values) and stack size are not covered.",
   technique="contract-based deductive verification: weakest-precondition style VC generation over go/ssa, discharged by z3/cvc5",
   design="DESIGN.md §4 C04, §2.8"),
 "C13": dict(
   text="Proof for all 2^64 (2^32, ...) arguments: each of the 63 narrowing helpers of conversions.go and addExact returns an error exactly when the value is out of the target range and otherwise a mathematically equal result; each integer and float dispatcher (convertTo/convertFrom Int8..Int64, Float32/64, date/time/timestamp fall-through) delivers, for every one of the ten Go integer representations and their pointers (forallT expansion), an equal value or an error; in addition every value-changing integer conversion instruction in these functions and in readDuration carries a 'narrow' obligation, so a bare cast added later fails. Tests sample a few values per pair.",
   note="Assumed: strconv.ParseInt/FormatInt, math/big.Int (modelled as 256-bit integers), big.Float accuracy, go/ssa, solvers, govc; int is 64 bits. floorDiv, floorMod and multiplyExact are not under proof (64x64-bit products/divisions undecided by all three solvers) and are listed as such in evidence; completeness (error only when out of range) is proved for integer representations only.",
   technique="contract-based deductive verification: pattern contracts over go/ssa VCs (bit-vector and floating-point SMT), counterexamples replayed on the real code",
   design="DESIGN.md §4 C13"),
 "C19": dict(
   text="Proof over the full 8/16/32-bit (and, for string-typed codes, all strings) domains: for each of the 16 code types IsValid(x) holds exactly for the constants declared for that type (enumerated from the source by go/types on every run); ProtocolVersion.IsSupported likewise (loop unrolled completely, unwinding obligation); String() of every declared constant returns a literal name, never the formatted fall-back; every opcode is exactly one of request/response; Check* helpers return nil exactly for declared values; 20 capability predicates equal truth tables transcribed from the six protocol specifications.",
   note="Assumed: go/ssa, solvers, govc, fmt.Sprintf/Errorf return fresh values; the truth tables are a hand transcription of specs/*.spec (that transcription is the oracle); for undeclared version numbers only totality is required.",
   technique="contract-based deductive verification: closure contracts generated from declared constants, SMT over bit-vectors and an uninterpreted string sort",
   design="DESIGN.md §4 C19"),
 "C20": dict(
   text="Proof of a representation invariant by induction over mutator calls: NewFrame establishes, and SetCustomPayload, SetWarnings, SetTracingId, RequestTracingId and SetCompress each preserve, 'flag bit <=> body part present, header opcode/direction = message's, compressed flag never on STARTUP/OPTIONS/READY', with exact effect and frame clauses (no other flag bit or body part changes); every STARTUP setter stores exactly its own option and changes no other (quantified over all keys), every getter returns it. Holding after every sequence of calls follows from requires-Inv/ensures-Inv on each mutator, which no test enumeration gives.",
   note="Assumed: go/ssa, solvers, govc; message GetOpCode/IsResponse are constant per implementer (checked syntactically, modelled as a function of the dynamic type); 'still encodes and round-trips' is the encoder's precondition (C01), not re-proved; SetTracingId/RequestTracingId specified for responses/requests as documented.",
   technique="contract-based deductive verification: representation invariant + frame conditions over a component heap model, SMT arrays for maps",
   design="DESIGN.md §4 C20"),
 "C06": dict(
   text="Proof: ChecksumKoopman equals the reference CRC-24 routine (init 0x875060, poly 0x1974F0B, masked bytes) for all 2^64 inputs at both header lengths (loops unrolled completely, unwinding obligations); the 3/5-byte little-endian header with 17-bit lengths and the flag bit, followed by the 3 CRC-24 bytes, is emitted exactly (write side) and parsed exactly (read side); encode-then-decode of a header returns the same lengths and flag for every length 0..131071 and both flag values, with and without compressor, including the 'uncompressed length 0' fallback; payloads above 131071 are refused with nothing written; the uncompressed segment is header + payload bytes as is (quantified over every index) + CRC-32 little-endian; the decoder consumes exactly length+4 bytes.",
   note="Assumed: hash/crc32.Update is the CRC-32 state function; crc24Ref is a literal transcription of Cassandra's Crc.crc24; go/ssa, solvers, govc; io.Writer/io.Reader stream contracts. Not covered: encodeSegmentCompressed and the LZ4 algorithm (no bound on compressor output under proof), end-to-end DecodeSegment(EncodeSegment(s)) payload equality (proved piecewise: header round trip, payload bytes on the write side, CRC over the transmitted bytes on the read side).",
   technique="contract-based deductive verification: bit-vector contracts, complete loop unrolling, lemma functions over contracts, quantified append-only stream contracts",
   design="DESIGN.md §4 C06"),
 "C07": dict(
   text="Proof of the decoder's obligations: decodeSegmentHeader returns success only if all 24 bits of the received CRC equal ChecksumKoopman of the received header bytes (and that function equals the reference CRC-24 for all inputs), every header field is a function of exactly those bytes, and a mismatching CRC is always rejected when 6 bytes are available; decodeSegmentPayload returns success only if all 32 bits of the received trailer equal the seeded CRC-32 of the payload bytes as transmitted, before any decompression. A wrong constant, shift, mask or a comparison ignoring part of a checksum fails a named obligation.",
   note="NOT proved (stated in evidence as a bounded/unproved part): that these CRCs detect every error pattern in the guaranteed range (minimum distance of the CRC-24 code, burst/2-bit detection of CRC-32) - coding-theory facts about the polynomials that none of the solvers decides; hash/crc32 is assumed to compute the IEEE CRC-32.",
   technique="contract-based deductive verification: postconditions tying acceptance to checksum equality over a prophecy model of the input stream",
   design="DESIGN.md §4 C07"),
 "C17": dict(
   text="Proof of an ownership discipline on all 174 DeepCopyInto/DeepCopy/DeepCopyMessage/DeepCopyDataType functions, with the contract generated from the current type definitions on every run: every reference (pointer, slice backing array, map, interface payload) written into memory allocated during the copy is nil or itself freshly allocated; on return every reference component of *out (any depth of embedded struct values) is nil or fresh and nil exactly when the original's is, slice lengths and all scalar components equal the original's, and the Copy functions return fresh objects of the receiver's dynamic type. Fresh memory starts zeroed, so by induction nothing reachable from the copy through the new memory is shared with the original - for all contents and sizes, which tests of a few instances cannot show. A field added without regenerating, a shallow element copy or a shared interface value each fail a named obligation.",
   note="Assumed: go/ssa, solvers, govc; interface-typed fields do not hold typed nil pointers; strings are immutable; callees of the family are used through the same generated summary (assume/guarantee). The equality half is proved for scalars, nil-ness, lengths and dynamic types; element-wise equality of copied slice/map contents is not stated.",
   technique="contract-based deductive verification: type-generated ownership contract (freshness ghost = allocation counter), store-time and exit obligations per function",
   design="DESIGN.md §4 C17"),
 "C03": dict(
   text="Proof that announced lengths equal emitted bytes: every primitive Write*/LengthOf* pair (byte, short, int, long, string, long string, bytes, short bytes, uuid, inet, inetaddr, value, stream id, vint and unsigned vint for all 2^64 values, string list and positional values through fold invariants, with no bound on the number of elements); the header writes 8 or 9 bytes; uncompressedBodyLength equals the bytes encodeBodyUncompressed writes for every flag combination and direction (this obligation failed on the original tree for requests carrying the tracing flag and is fixed); encodeFrameUncompressed/EncodeRawFrame write header + exactly Header.BodyLength bytes; and for 13 of the 17 message codecs a lemma executes Encode and EncodedLength on the same symbolic message and proves the counts equal for all contents and versions.",
   note="ASSUMED: writer/length agreement of the four map-typed notations (both range over a Go map). NOT covered: BATCH, RESULT, REGISTER, EVENT codecs (loops needing further fold invariants), compressed bodies, the decoder half (consumes header + BodyLength) and hence the 'back-to-back frames' consequence. encLen(codec,message,version) is an abstract length valid while the message is not modified. Assumed stream contracts of io.Writer/bytes.Buffer/encoding/binary.",
   technique="contract-based deductive verification: ghost byte counters, fold invariants with instantiated defining equations, relational lemma functions over the real Encode/EncodedLength bodies",
   design="DESIGN.md §4 C03"),
 "C08": dict(
   text="Proof of the part of the property this repository owns, under assumed contracts of the LZ4 block functions: lz4.decompress succeeds on every valid block whatever its compression ratio (up to the format's 255:1), returns exactly the denoted number of bytes, fails only on invalid blocks, and its doubling loop terminates (measure obligation) - this completeness obligation could not be discharged on the original tree (sizes stopped at 8x; 10000 zero bytes failed to decompress) and is fixed; the LZ4/Snappy wrappers never panic and write only to their destination stream and read only their source (frame obligations against the PayloadCompressor contract).",
   note="ASSUMED: the LZ4 block decoder/encoder contracts (third-party, partly assembly), snappy used without contract. NOT covered: decompress(compress(b)) == b end to end, Snappy's algorithm, contents flowing through bytes.Buffer. The claim is mechanism-level for the wrappers, as DESIGN.md states.",
   technique="contract-based deductive verification: loop invariants and termination measure over assumed library contracts",
   design="DESIGN.md §4 C08"),
 "C15": dict(
   text="Mechanism-level proof only, as DESIGN.md states: both writeSegment functions leave (and hand to the frame codec) an envelope whose compressed flag is clear; maybeSwitchToModernLayout switches exactly on READY/AUTHENTICATE of a version with the modern framing and never back; both connection constructors establish the object invariant 'frame codec, segment codec and multi-segment accumulator present', under which the client's reassembly path cannot dereference nil. The two server-side obligations failed on the original tree (discarded Flags.Remove result; accumulator never initialised) and are fixed. The end-to-end statement of C15 (sockets, goroutines, handshake sequencing, an independent peer) is NOT decided by this check.",
   note="go statements ignored and channels opaque in the constructors; codec behaviour behind the frame.Codec/RawCodec interfaces assumed (non-nil results); zerolog without effect; server read path not covered.",
   technique="contract-based deductive verification of the sequential mechanisms (postconditions, object invariant as type invariant), concurrency abstracted",
   design="DESIGN.md §4 C15"),
 "C11": dict(
   text="Proof, per codec, by a lemma function that runs the real Encode and then the real Decode on the result: for bigint/counter, int, smallint and tinyint and each of the ten Go integer types, for float and double and both float types (NaN excluded), for boolean with bool and every integer type, and for varint with *big.Int, decoding what was encoded into the same representation yields the same value with no error - for all values of those types, not a sample. The varint lemma failed on the original tree (Encode wrote the bare magnitude: -1 -> 01, 128 -> 80) and is fixed.",
   note="PARTIAL: containers as Go values go through package reflect and are not applicable to this technique; decimal, duration, date, time, timestamp, uuid, inet, blob, varchar and mixed representations are not covered. big.Int values are modelled as 256-bit integers; the varint byte format is assumed from writeBigInt/readBigInt and checked only by a bounded execution (141807 cases).",
   technique="contract-based deductive verification: round-trip lemma functions over callee contracts (bit-vector/FP SMT), forallT expansion over Go types; bounded stand-in for varint bytes",
   design="DESIGN.md §4 C11"),
 "C12": dict(
   text="Proof that the fixed-width scalars are written and read as the specification prescribes: bigint/int/smallint/tinyint as big-endian two's complement of 8/4/2/1 bytes, float/double as the big-endian IEEE 754 bit patterns, boolean as one byte, every other length refused, zero length read as NULL; and that the varint codec emits exactly the minimal two's-complement encoding produced by writeBigInt (this obligation failed on the original tree and is fixed).",
   note="BOUNDED, not proved: that writeBigInt/readBigInt implement minimal two's complement (assumed by the proof; exhaustive execution against an independent reference on [-70000,70000] and around +-2^k, k<=300). NOT covered: decimal, duration, date offset, inet, uuid, collection/tuple/UDT framing.",
   technique="contract-based deductive verification: byte-level postconditions on slices; bounded execution stand-in for arbitrary-precision bytes",
   design="DESIGN.md §4 C12"),
 "C14": dict(
   text="Proof for the integer, float and boolean codecs: encoding an untyped nil yields a NULL that decodes with wasNull set, no error and the destination zeroed, for every integer/float/bool destination type; every fixed-width reader treats the empty value as NULL with a zero result.",
   note="PARTIAL: typed nil sources, NULL elements in containers and their refusal in protocol v2 run through package reflect (not applicable to this technique); the remaining scalar codecs are not covered.",
   technique="contract-based deductive verification: lemma functions and postconditions, forallT expansion",
   design="DESIGN.md §4 C14"),
 "C18": dict(
   text="Proof of a write-frame condition on every non-reflective function of the codec packages (primitive, datatype, message, frame, segment, crc, compression, datacodec: 816 functions): each store, map update, in-place append, copy, stream write, and each permission to write handed to a callee, targets memory the call allocated itself or memory owned by the caller (the frame, message, value, destination, reader or writer passed in and what is reachable from them) - never the codec/compressor/data-type receiver, a package-level variable, or anything loaded from those. Hence calls on distinct frames or values share only memory nobody writes, so no interleaving can change a call's result or race on library state; a scratch buffer, cache or counter added to a codec, a compressor or a package fails a named 'share' obligation for all inputs, which no sequential test and no finite stress run shows.",
   note="PRECONDITION assumed (the property's 'distinct frames or values'): caller-owned arguments do not alias codec state, globals or other goroutines' arguments. NOT covered: interleavings as such / the race detector's view; functions that manipulate values through package reflect (container codecs, injectors/extractors) and readCollection/writeCollection/Map/Tuple/Udt; third-party lz4/snappy internals and the standard library (trusted goroutine-safe); SetBodyCompressor (configuration call, writes its receiver by design); package initialisers. Read-only-parameter exemptions come from a conservative syntactic analysis.",
   technique="contract-based deductive verification: generated frame (ownership) contract per function over go/ssa VCs with an uninterpreted ownership predicate, checked at stores and call sites, discharged by z3/cvc5",
   design="DESIGN.md §11 C18"),
 "C05": dict(
   text="Proof of the byte accounting and of the raw round trip of the proxy-side operations: DecodeRawBody returns exactly the next Header.BodyLength bytes, unchanged, and consumes exactly that many; DiscardBody skips exactly that many on seekable and on plain sources; both refuse negative lengths; DecodeRawFrame is the decoded header followed by exactly the declared bytes; EncodeRawFrame writes the header with BodyLength = len(body) and then the body bytes unchanged; EncodeRawFrame followed by DecodeRawFrame returns the same header fields and length; ConvertToRawFrame/ConvertFromRawFrame keep the header object and declare the produced body's length; compressed bodies are decompressed from at most BodyLength bytes and body compressors touch only their two streams - for all frames, bodies and versions.",
   note="NOT covered: equality of message contents between DecodeFrame and DecodeRawFrame+ConvertFromRawFrame (a relational statement over two decodings) and the re-encode clause for arbitrary decodable inputs. ASSUMED: io.Seeker's documented contract, stream models of io.CopyN / io.LimitReader / bytes.Buffer, message decoders write no pre-existing stream but their source (backed by C18). For a seekable source shorter than the declared body DiscardBody returns nil (stated; the property quantifies over valid frames).",
   technique="contract-based deductive verification: stream-position and byte-content postconditions over prophecy/ghost stream models, lemma function for the raw round trip",
   design="DESIGN.md §11 C05"),
 "C02": dict(
   text="Proof against a transcription of the specifications into contracts, independent of the code: EncodeHeader emits exactly version|direction bit, flags, stream id (1 signed byte in v2, 2 bytes big-endian from v3), opcode, 4-byte big-endian length and refuses unsupported versions; DecodeHeader returns exactly those fields from exactly those bytes and accepts only versions 2,3,4,5,0x41,0x42 and opcodes whose direction (request/response tables of the specifications) matches the direction bit - over all 2^16 version/opcode bytes and all other header contents; [byte], [short], [int], [long], [string], [long string], [bytes] (null = -1), [short bytes], [unsigned vint]/[vint] writers emit and readers accept exactly the specified bytes for every value; the body prefix is [tracing id][warnings][custom payload] in that order - this obligation failed on the original tree (payload and warnings were swapped, symmetrically in encoder and decoder, hence invisible to round trips) and is fixed; query/batch/prepare/rows/variables flags are set exactly when their field is present; the QUERY/EXECUTE options and the RESULT Rows metadata prefix follow the specification's element order (token view; catches swaps made symmetrically in encoder and decoder).",
   note="PARTIAL: the body layout of the 17 messages (field order and presence per version), [value], [inet], [uuid], maps, lists and type descriptors are NOT covered; capability predicates per version are proved against specification tables under C19. The transcription of the specifications is the oracle. Read side of vints: value for encodings up to 6 bytes, byte count for all.",
   technique="contract-based deductive verification: byte-exact postconditions over ghost write streams and prophecy read streams, completely unrolled vint loops, header round-trip lemma",
   design="DESIGN.md §11 C02"),
 "C01": dict(
   text="Proof of the frame-level part of the round trip: for every header with a supported version, an opcode of the matching direction and (v2) a stream id in [-128,127], EncodeHeader into a buffer succeeds and DecodeHeader of those bytes succeeds and returns the same direction, version, flags, stream id, opcode and body length; the same with an opaque body of any length (raw frames); and haveSameTable - which decides the GLOBAL_TABLES_SPEC flag under which the decoder copies one keyspace/table into every column - is true exactly when all columns share keyspace and table; and, message by message, Decode(Encode(m)) returns a message of the same kind with the same contents (strings and byte strings compared by length and byte by byte, nil tokens distinguished) for AUTHENTICATE, AUTH_RESPONSE, AUTH_CHALLENGE, AUTH_SUCCESS, OPTIONS, READY, PREPARE (query), REVISE, RESULT Void, RESULT SetKeyspace and the ten ERROR kinds carrying only a message; through the token view of the buffer (assumed token clauses of the notation writers/readers) also PREPARE with keyspace, STARTUP, QUERY with options (no bound values), UNAVAILABLE, READ_TIMEOUT, WRITE_TIMEOUT (version- and CAS-dependent contentions), ALREADY_EXISTS, UNPREPARED, FUNCTION_FAILURE, each with 'what Encode accepted Decode accepts'; every flag of query options, batch, prepare, rows and variables metadata is set exactly when its field is present - for all contents and versions.",
   note="PARTIAL: SUPPORTED, REGISTER, EXECUTE, BATCH, bound values, RESULT Rows/Prepared/SchemaChange, EVENT, failure errors with reason maps and compression are NOT decided by this check; the token clauses of the notation writers/readers are ASSUMED (justified by their byte-level contracts under C02); lengths are C03, flag/body consistency C20, compression wrappers C08, constants C19.",
   technique="contract-based deductive verification: round-trip lemma functions over the real encoder and decoder with completeness clauses for in-memory buffers; loop invariant for the table-spec predicate",
   design="DESIGN.md §11 C01"),
 "C09": dict(
   text="Proof, for the sequential mechanism of the in-flight table (any sequence of handler operations one after another, by induction over a representation invariant): the pool is created holding exactly 1..N once each; every accepted request carries an id in 1..N (automatic assignment) or its caller-chosen id, which no unanswered request carries, and that id leaves the pool while nothing else changes; a send when the pool is empty and a send reusing the id of an unanswered request are refused; a refused send leaves table and pool unchanged - this obligation failed on the original tree (the id borrowed before the refusal leaked: N=1, explicit send 1, managed send refused, answer 1, managed send -> 'no stream id available' for ever) and is fixed; the final frame of a response frees the entry and returns an automatically assigned id to the pool, non-final pages and unknown ids change nothing.",
   note="SEQUENTIAL ONLY: interleavings of concurrent senders and the responder, the RW lock, timeouts and close() are not decided (go statements ignored, locks and atomics sequential); the buffered channel is modelled as a bounded multiset (FIFO abstracted); the per-request object is used through its contracts, proved under C10; release-cannot-fail after the final frame needs a cardinality argument that is not under proof.",
   technique="contract-based deductive verification: representation invariant over a sequential multiset model of the buffered channel, quantified frame clauses over all ids, loop invariant for the filling loop",
   design="DESIGN.md §11 C09"),
 "C10": dict(
   text="Proof, for the sequential mechanism of response correlation (any sequence of handler operations one after another, by induction over the invariants poolInv, tableInv, chansDistinct, reqInv): the request handed to a sender is the one registered under the frame's stream id and is a fresh object with its own fresh, empty, open channel; an incoming frame is queued exactly once, on the channel of the request registered under the frame's stream id (whose streamId field equals that id), and the frame condition shows that no other request, channel or table entry changes; a frame with an unknown id is refused and changes nothing; the last frame of a response (every frame except a continuous-paging Rows page not flagged last - isLastFrame proved against that statement) completes the request (done, channel closed, no error), any other page leaves it registered and open; a refused delivery queues nothing; EVENT frames go to the event channel (once, if there is room) and touch no request, request channel or table entry, every other frame goes to the in-flight handler and never to the event channel.",
   note="SEQUENTIAL MECHANISM ONLY: interleavings of concurrent senders with the receive loop, locks, timer goroutines and close() racing with delivery are not decided (go statements ignored, sync primitives no-ops); channels of frames are bounded multisets of frame references, FIFO order ('arrival order') is Go's channel semantics, trusted; ASSUMED: event handlers (user callbacks) leave the connection's table and channels alone, context.CancelFunc affects only its context, ctx.Done() is never sent on, frames are well formed as the decoder produces them, the receive path calls processIncomingFrame with the invariants in force (call site not verified). Send/Receive wrappers, handler close() and timeouts are not covered.",
   technique="contract-based deductive verification: representation invariants over a sequential multiset model of channels of frame references, quantified frame (assigns) clauses, postconditions per operation",
   design="DESIGN.md §11 C10"),
}

not_applicable = {
 "C16": "quantifies over crash points and schedules of goroutines, timers and sockets; no pre/postcondition or data-structure invariant over one call expresses it (DESIGN.md §4 C16)",
}
pending_reason = "contracts for this property are not yet under machine check in this commit; not claimed until its obligations discharge (DESIGN.md §8 order of work)"

ids = ["C%02d" % i for i in range(1, 21)]
checks = []
for pid, c in claimed.items():
    checks.append({
        "property_id": pid,
        "quick_cmd": f"{ENV} bin/govc check {pid} --tier quick",
        "thorough_cmd": f"{ENV} bin/govc check {pid} --tier thorough",
        "evidence_file": f"/verif/evidence/{pid}.json",
        "replay_cmd_template": "cat {path}",
        "engine": "govc",
        "level_claimed": {"category": "proof", "text": c["text"], "design_ref": c["design"]},
        "level_note": c["note"],
        "technique": c["technique"],
    })
na = []
for pid in ids:
    if pid in claimed:
        continue
    na.append({"property_id": pid, "reason": not_applicable.get(pid, pending_reason)})

hooks_commits = subprocess.run(["git", "-C", "/repo", "log", "--format=%H %s"], capture_output=True, text=True).stdout.splitlines()
hook_shas = [l.split()[0] for l in hooks_commits if " verif hooks:" in l]

m = {
 "version": 1,
 "setup_cmd": f"cd /verif && {ENV} go build -o bin/govc ./cmd/govc",
 "hooks": {
   "guard": "verif",
   "enable": "-tags verif (govc loads /repo with the tag on; the guarded files are comment-only contract files <pkg>/contracts_verif.go)",
   "baseline_off_cmd": BASELINE_OFF,
   "source_commits": hook_shas,
   "add_only": True,
 },
 "engines": [{"name": "govc", "path": "/verif/cmd/govc", "serves_properties": sorted(claimed), "kind_free_text": "VC generator over go/ssa (x/tools v0.29.0) with contracts in //@ comments, obligations raced on z3 4.8.12, z3 5.1.0 and cvc5 1.0.3"}],
 "checks": checks,
 "not_applicable": na,
 "notes": "Contracts live in /repo/<pkg>/contracts_verif.go (build tag verif). Known findings and fixed defects: /verif/known_findings.json. See DESIGN.md.",
}
json.dump(m, open('/verif/MANIFEST.json', 'w'), indent=1)
print("claimed:", sorted(claimed), "not_applicable:", len(na))
