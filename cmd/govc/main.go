package main

import (
	"encoding/json"
	"flag"
	"fmt"
	"os"
	"sort"
	"strings"
	"sync"
	"time"

	"verif/internal/vc"
)

func main() {
	if len(os.Args) < 2 {
		fmt.Fprintln(os.Stderr, "usage: govc func|sweep|check ...")
		os.Exit(2)
	}
	switch os.Args[1] {
	case "func":
		cmdFunc(os.Args[2:])
	case "check":
		cmdCheck(os.Args[2:])
	case "modset":
		w := load("/repo")
		for _, k := range w.ListFuncs() {
			if matched(os.Args[2], k) {
				fmt.Println(k, w.ModSetList(w.Funcs[k]))
			}
		}
	case "baseline":
		cmdBaseline(os.Args[2:])
	default:
		fmt.Fprintln(os.Stderr, "unknown command")
		os.Exit(2)
	}
}

func load(dir string) *vc.World {
	start := time.Now()
	w, err := vc.Load(dir, nil)
	if err != nil {
		fmt.Fprintln(os.Stderr, "load:", err)
		os.Exit(3)
	}
	w.ExpandPatterns()
	w.LoadSeconds = time.Since(start).Seconds()
	return w
}

// govc func [-nocontract] [-t secs] <regexp over function keys>
func cmdFunc(args []string) {
	fs := flag.NewFlagSet("func", flag.ExitOnError)
	noct := fs.Bool("nocontract", false, "ignore contracts (safety sweep only)")
	to := fs.Int("t", 10, "solver timeout seconds")
	dir := fs.String("repo", "/repo", "repository")
	verbose := fs.Bool("v", false, "verbose")
	own := fs.Bool("own", false, "ownership discipline (C17)")
	share := fs.Bool("share", false, "sharing discipline (C18)")
	classes := fs.String("classes", "", "comma-separated obligation classes to keep")
	narrow := fs.Bool("narrow", false, "narrow obligations (C13)")
	absc := fs.Bool("absconc", false, "ignore go statements, opaque channels")
	fs.Parse(args)
	w := load(*dir)
	pat := fs.Arg(0)
	par := make(chan struct{}, vc.SolverSlots())
	var keys []string
	for _, k := range w.ListFuncs() {
		if matched(pat, k) {
			keys = append(keys, k)
		}
	}
	var mu sync.Mutex
	var wg sync.WaitGroup
	tot := map[string]int{}
	for _, k := range keys {
		wg.Add(1)
		go func(k string) {
			defer wg.Done()
			fn := w.Funcs[k]
			ct := w.Contracts[k]
			if *noct {
				ct = nil
			}
			par <- struct{}{}
			res := w.GenVC(fn, ct, func(e *vc.Engine) { e.OwnCheck = *own; e.CheckNarrow = *narrow; e.AbstractConc = *absc; e.ShareCheck = *share })
			<-par
			var out strings.Builder
			if res.Rejected != "" {
				fmt.Fprintf(&out, "REJECT %s: %s\n", k, res.Rejected)
				mu.Lock()
				tot["rejected"]++
				fmt.Print(out.String())
				mu.Unlock()
				return
			}
			if *classes != "" {
				var kept []*vc.Obligation
				for _, ob := range res.Engine.Obls {
					for _, c := range strings.Split(*classes, ",") {
						if ob.Class == c {
							kept = append(kept, ob)
						}
					}
				}
				res.Engine.Obls = kept
			}
			rs := res.Engine.Solve("/tmp/govc-smt", *to, false, par)
			cnt := map[string]int{}
			for _, r := range rs {
				cnt[r.Status]++
				if r.Status != "discharged" || *verbose {
					fmt.Fprintf(&out, "  %-10s %s [%s %s %.2fs] %s %s\n", r.Status, r.Name, r.How, r.Solver, r.Seconds, r.Pos, r.Detail)
					if len(r.Model) > 0 {
						b, _ := json.Marshal(r.Model)
						fmt.Fprintf(&out, "             model %s\n", b)
					}
					if r.Status == "undecided" {
						fmt.Fprintf(&out, "             %s\n", r.Output)
					}
				}
			}
			mu.Lock()
			fmt.Printf("%s: %v\n%s", k, cnt, out.String())
			if *verbose {
				for _, n := range res.Engine.Notes {
					fmt.Println("  note:", n)
				}
			}
			for s, n := range cnt {
				tot[s] += n
			}
			mu.Unlock()
		}(k)
	}
	wg.Wait()
	var ks []string
	for k := range tot {
		ks = append(ks, k)
	}
	sort.Strings(ks)
	fmt.Print("TOTAL")
	for _, k := range ks {
		fmt.Printf(" %s=%d", k, tot[k])
	}
	fmt.Println()
}

func matched(pat, k string) bool {
	if pat == "" {
		return true
	}
	return vc.MatchKey(pat, k)
}

func cmdCheck(args []string) {
	fs := flag.NewFlagSet("check", flag.ExitOnError)
	tier := fs.String("tier", "", "quick|thorough")
	dir := fs.String("repo", "/repo", "repository")
	vdir := fs.String("verif", "/verif", "verif directory")
	to := fs.Int("t", 0, "solver timeout seconds")
	verbose := fs.Bool("v", false, "verbose")
	only := fs.String("only", "", "development: only functions matching")
	var prop string
	if len(args) > 0 && !strings.HasPrefix(args[0], "-") {
		prop = args[0]
		args = args[1:]
	}
	fs.Parse(args)
	if prop == "" {
		prop = fs.Arg(0)
	}
	if *tier == "" {
		*tier = os.Getenv("VERIF_TIER")
	}
	if *tier == "" {
		*tier = "quick"
	}
	var seed int64
	fmt.Sscan(os.Getenv("VERIF_SEED"), &seed)
	w := load(*dir)
	os.Exit(vc.RunCheck(w, vc.CheckOpts{Prop: prop, Tier: *tier, Seed: seed, VerifDir: *vdir, Timeout: *to, Verbose: *verbose, Only: *only}))
}

func cmdBaseline(args []string) {
	w := load("/repo")
	for _, p := range args {
		if err := vc.WriteBaseline(w, p, "/verif"); err != nil {
			fmt.Fprintln(os.Stderr, err)
			os.Exit(1)
		}
	}
}
