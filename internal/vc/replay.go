package vc

import (
	"encoding/json"
	"fmt"
	"go/types"
	"math/big"
	"os"
	"os/exec"
	"path/filepath"
	"regexp"
	"strings"

	"golang.org/x/tools/go/ssa"

	"verif/internal/smt"
)

const replayBytes = 96

// inputTerms builds the named terms whose model values describe the inputs of fn (for replay).
func (e *Engine) inputTerms(st *State, fn *ssa.Function, args []Val) []NamedTerm {
	c := e.C
	var out []NamedTerm
	for i, p := range fn.Params {
		v := args[i]
		name := p.Name()
		switch u := types.Unalias(p.Type()).Underlying().(type) {
		case *types.Interface:
			out = append(out, NamedTerm{name + "#tag", v.Terms[0]})
			if hasMethod(u, "Read") {
				key := v.Terms[1]
				pos := e.ghostGet(st, gPos, key)
				avail := e.ghostGet(st, pAvail, key)
				out = append(out, NamedTerm{name + "@len", bvsub(c, avail, pos)})
				data := e.ghostGet(st, pData, key)
				for k := 0; k < replayBytes; k++ {
					out = append(out, NamedTerm{fmt.Sprintf("%s@byte%d", name, k), c.Select(data, bvadd(c, pos, c.BVLit64(int64(k), 64)))})
				}
			}
		case *types.Slice:
			out = append(out, NamedTerm{name + "@nil", c.Eq(v.Terms[0], c.IntLit(0))})
			out = append(out, NamedTerm{name + "@len", v.Terms[2]})
			if isInteger(u.Elem()) && bitWidth(u.Elem()) == 8 {
				arr := e.heapArr(st, elemName(u.Elem(), 0), smt.Array(smt.Int, bytesInner))
				inner := c.Select(arr, v.Terms[0])
				for k := 0; k < replayBytes; k++ {
					out = append(out, NamedTerm{fmt.Sprintf("%s@byte%d", name, k), c.Select(inner, bvadd(c, v.Terms[1], c.BVLit64(int64(k), 64)))})
				}
			}
		case *types.Pointer:
			out = append(out, NamedTerm{name + "@nil", c.Eq(v.Terms[0], c.IntLit(0))})
			if stt, ok := types.Unalias(u.Elem()).Underlying().(*types.Struct); ok {
				pv := v
				if pv.Ptr == nil {
					e.wrapPtr(&pv)
				}
				e.quiet++
				loaded := e.load(st.clone(), pv, u.Elem())
				e.quiet--
				off := 0
				for fi := 0; fi < stt.NumFields(); fi++ {
					n := len(e.comps(stt.Field(fi).Type()))
					if n == 1 {
						out = append(out, NamedTerm{fmt.Sprintf("%s.%s", name, stt.Field(fi).Name()), loaded.Terms[off]})
					}
					off += n
				}
			}
		default:
			for k, t := range v.Terms {
				if k == 0 && len(v.Terms) == 1 {
					out = append(out, NamedTerm{name, t})
				} else {
					out = append(out, NamedTerm{fmt.Sprintf("%s#%d", name, k), t})
				}
			}
		}
	}
	return out
}

func hasMethod(it *types.Interface, name string) bool {
	for i := 0; i < it.NumMethods(); i++ {
		if it.Method(i).Name() == name {
			return true
		}
	}
	return false
}

var bvHex = regexp.MustCompile(`^#x([0-9a-fA-F]+)$`)
var bvBin = regexp.MustCompile(`^#b([01]+)$`)

// parseBV parses an SMT bit-vector value; returns unsigned value and width.
func parseBV(s string) (*big.Int, int, bool) {
	s = strings.TrimSpace(s)
	if m := bvHex.FindStringSubmatch(s); m != nil {
		v, _ := new(big.Int).SetString(m[1], 16)
		return v, 4 * len(m[1]), true
	}
	if m := bvBin.FindStringSubmatch(s); m != nil {
		v, _ := new(big.Int).SetString(m[1], 2)
		return v, len(m[1]), true
	}
	var v string
	var w int
	if n, _ := fmt.Sscanf(s, "(_ bv%s %d)", &v, &w); n == 2 {
		b, ok := new(big.Int).SetString(v, 10)
		return b, w, ok
	}
	return nil, 0, false
}

func goIntLit(v *big.Int, w int, signed bool) string {
	if signed && v.Bit(w-1) == 1 {
		v = new(big.Int).Sub(v, new(big.Int).Lsh(big.NewInt(1), uint(w)))
	}
	return v.String()
}

// goTypeName renders t as it can be written inside package pkg.
func goTypeName(t types.Type, pkg *types.Package, plan *replayPlan) string {
	return types.TypeString(t, func(p *types.Package) string {
		if p == pkg {
			return ""
		}
		plan.imports[p.Path()] = true
		return p.Name()
	})
}

type replayPlan struct {
	imports map[string]bool
	setup   []string
	args    []string
}

// buildArg renders the Go expression for parameter p from the model, or fails.
func buildArg(p *ssa.Parameter, model map[string]string, pkg *types.Package, plan *replayPlan) (string, bool) {
	name := p.Name()
	t := p.Type()
	switch u := types.Unalias(t).Underlying().(type) {
	case *types.Basic:
		switch {
		case u.Info()&types.IsInteger != 0:
			v, w, ok := parseBV(model[name])
			if !ok {
				return "", false
			}
			return fmt.Sprintf("%s(%s)", goTypeName(t, pkg, plan), goIntLit(v, w, isSigned(t))), true
		case u.Info()&types.IsBoolean != 0:
			return model[name], model[name] == "true" || model[name] == "false"
		case u.Info()&types.IsString != 0:
			for k, v := range model {
				if strings.HasPrefix(k, name+"==") && v == "true" {
					return fmt.Sprintf("%s(%q)", goTypeName(t, pkg, plan), strings.TrimPrefix(k, name+"==")), true
				}
			}
			return fmt.Sprintf("%s(%q)", goTypeName(t, pkg, plan), "govc: some string that is no literal of the code"), true
		}
	case *types.Interface:
		if hasMethod(u, "Read") {
			bs, ok := modelBytes(model, name)
			if !ok {
				return "", false
			}
			plan.imports["bytes"] = true
			return "bytes.NewReader(" + bs + ")", true
		}
		if hasMethod(u, "Write") {
			plan.imports["bytes"] = true
			return "&bytes.Buffer{}", true
		}
		if u.NumMethods() == 0 && model[name+"#tag"] == "0" {
			return "nil", true
		}
		return "", false
	case *types.Slice:
		if model[name+"@nil"] == "true" {
			return "nil", true
		}
		if isInteger(u.Elem()) && bitWidth(u.Elem()) == 8 {
			bs, ok := modelBytes(model, name)
			return bs, ok
		}
		return "", false
	case *types.Pointer:
		if model[name+"@nil"] == "true" {
			return "nil", true
		}
		stt, ok := types.Unalias(u.Elem()).Underlying().(*types.Struct)
		if !ok {
			return "", false
		}
		var fields []string
		for i := 0; i < stt.NumFields(); i++ {
			f := stt.Field(i)
			mv, has := model[name+"."+f.Name()]
			if !has {
				continue // composite fields stay zero
			}
			if isInteger(f.Type()) {
				v, w, ok := parseBV(mv)
				if !ok {
					return "", false
				}
				fields = append(fields, fmt.Sprintf("%s: %s(%s)", f.Name(), goTypeName(f.Type(), pkg, plan), goIntLit(v, w, isSigned(f.Type()))))
			} else if isBool(f.Type()) {
				fields = append(fields, fmt.Sprintf("%s: %s", f.Name(), mv))
			}
		}
		return fmt.Sprintf("&%s{%s}", goTypeName(u.Elem(), pkg, plan), strings.Join(fields, ", ")), true
	case *types.Struct:
		if u.NumFields() == 0 {
			return goTypeName(t, pkg, plan) + "{}", true
		}
	}
	return "", false
}

func modelBytes(model map[string]string, name string) (string, bool) {
	lv, w, ok := parseBV(model[name+"@len"])
	if !ok {
		return "", false
	}
	n := goIntLit(lv, w, true)
	var ln int64
	fmt.Sscan(n, &ln)
	if ln < 0 {
		return "", false
	}
	if ln > replayBytes {
		ln = replayBytes
	}
	var bs []string
	for k := int64(0); k < ln; k++ {
		v, _, ok := parseBV(model[fmt.Sprintf("%s@byte%d", name, k)])
		if !ok {
			v = big.NewInt(0)
		}
		bs = append(bs, fmt.Sprintf("0x%02x", v.Int64()))
	}
	return "[]byte{" + strings.Join(bs, ", ") + "}", true
}

// tryReplay turns the solver's model into an in-package test (injected with -overlay, nothing is written into the
// repository), runs the real function and checks that the predicted failure happens. On success the replay file
// holds the test source, the command and the observed output.
func (w *World) tryReplay(fv *FuncVC, r OblResult, path string) bool {
	fn := fv.Fn
	if fn.Pkg == nil || len(r.Model) == 0 {
		return false
	}
	if os.Getenv("GOVC_DEBUG_REPLAY") != "" {
		fmt.Fprintf(os.Stderr, "REPLAY attempt %s\n", r.Name)
	}
	pkg := fn.Pkg.Pkg
	plan := &replayPlan{imports: map[string]bool{"fmt": true, "testing": true}}
	var args []string
	params := fn.Params
	var recv string
	for i, p := range params {
		if i == 0 && fn.Signature.Recv() != nil {
			// receiver: zero value of the receiver type
			t := p.Type()
			if pt, ok := t.(*types.Pointer); ok {
				recv = fmt.Sprintf("(&%s{})", goTypeName(pt.Elem(), pkg, plan))
			} else {
				recv = fmt.Sprintf("%s{}", goTypeName(t, pkg, plan))
				if _, isStruct := t.Underlying().(*types.Struct); !isStruct {
					a, ok := buildArg(p, r.Model, pkg, plan)
					if !ok {
						return false
					}
					recv = a
				}
			}
			continue
		}
		a, ok := buildArg(p, r.Model, pkg, plan)
		if !ok {
			return false
		}
		args = append(args, a)
	}
	call := fn.Name() + "(" + strings.Join(args, ", ") + ")"
	if recv != "" {
		call = recv + "." + call
	}
	nres := fn.Signature.Results().Len()
	var lhs []string
	var prints []string
	for i := 0; i < nres; i++ {
		lhs = append(lhs, fmt.Sprintf("r%d", i))
		rt := fn.Signature.Results().At(i).Type()
		switch {
		case isInteger(rt):
			prints = append(prints, fmt.Sprintf(`fmt.Printf("GOVC-RESULT %d int %%d\n", r%d)`, i, i))
		case isBool(rt):
			prints = append(prints, fmt.Sprintf(`fmt.Printf("GOVC-RESULT %d bool %%v\n", r%d)`, i, i))
		case types.Identical(rt, errorType()):
			prints = append(prints, fmt.Sprintf(`fmt.Printf("GOVC-RESULT %d errnil %%v\n", r%d == nil)`, i, i))
		case isString(rt):
			prints = append(prints, fmt.Sprintf(`fmt.Printf("GOVC-RESULT %d string %%q\n", r%d)`, i, i))
		default:
			prints = append(prints, fmt.Sprintf(`_ = r%d`, i))
		}
	}
	var src strings.Builder
	fmt.Fprintf(&src, "package %s\n\nimport (\n", pkg.Name())
	for imp := range plan.imports {
		fmt.Fprintf(&src, "\t%q\n", imp)
	}
	fmt.Fprintf(&src, ")\n\n// replay of failed obligation %s\nfunc TestGovcReplay(t *testing.T) {\n", r.Name)
	fmt.Fprintf(&src, "\tdefer func() {\n\t\tif p := recover(); p != nil {\n\t\t\tfmt.Printf(\"GOVC-PANIC %%v\\n\", p)\n\t\t}\n\t}()\n")
	if nres > 0 {
		fmt.Fprintf(&src, "\t%s := %s\n", strings.Join(lhs, ", "), call)
	} else {
		fmt.Fprintf(&src, "\t%s\n", call)
	}
	for _, p := range prints {
		fmt.Fprintf(&src, "\t%s\n", p)
	}
	fmt.Fprintf(&src, "\tfmt.Println(\"GOVC-DONE\")\n}\n")

	tmp, err := os.MkdirTemp("", "govc-replay")
	if err != nil {
		return false
	}
	defer os.RemoveAll(tmp)
	testFile := filepath.Join(tmp, "govc_replay_test.go")
	os.WriteFile(testFile, []byte(src.String()), 0o644)
	pkgDir := filepath.Dir(w.Prog.Fset.Position(fn.Pos()).Filename)
	ov := map[string]map[string]string{"Replace": {filepath.Join(pkgDir, "govc_replay_test.go"): testFile}}
	ovb, _ := json.Marshal(ov)
	ovFile := filepath.Join(tmp, "overlay.json")
	os.WriteFile(ovFile, ovb, 0o644)
	cmdline := fmt.Sprintf("ulimit -v 16000000; cd %s && go test -overlay %s -vet=off -count=1 -v -timeout 60s -run '^TestGovcReplay$' .", pkgDir, ovFile)
	cmd := exec.Command("bash", "-c", cmdline)
	cmd.Env = append(os.Environ(), "GOFLAGS=-mod=mod", "GOPROXY=off", "GOSUMDB=off", "GOTOOLCHAIN=local")
	outb, _ := cmd.CombinedOutput()
	out := string(outb)
	if os.Getenv("GOVC_DEBUG_REPLAY") != "" {
		fmt.Fprintf(os.Stderr, "REPLAY %s\n%s\n%s\n", r.Name, src.String(), out)
	}
	confirmed := false
	why := ""
	switch r.Class {
	case "alloc", "index", "nil", "typeassert", "div", "shift", "panic", "pre":
		if strings.Contains(out, "GOVC-PANIC") || strings.Contains(out, "panic:") || strings.Contains(out, "fatal error") {
			confirmed = true
			why = "the real function panics on the model's input"
		}
	case "post":
		// the model predicts result values; the violation is real if the real results equal the predicted ones
		match := strings.Contains(out, "GOVC-DONE")
		checked := 0
		for i := 0; i < nres; i++ {
			rt := fn.Signature.Results().At(i).Type()
			switch {
			case isInteger(rt):
				v, wd, ok := parseBV(r.Model[fmt.Sprintf("result%d", i)])
				if !ok {
					match = false
					continue
				}
				checked++
				if !strings.Contains(out, fmt.Sprintf("GOVC-RESULT %d int %s\n", i, goIntLit(v, wd, isSigned(rt)))) {
					match = false
				}
			case isBool(rt):
				checked++
				if !strings.Contains(out, fmt.Sprintf("GOVC-RESULT %d bool %s\n", i, r.Model[fmt.Sprintf("result%d", i)])) {
					match = false
				}
			case types.Identical(rt, errorType()):
				checked++
				isnil := r.Model[fmt.Sprintf("result%d#tag", i)] == "0"
				if !strings.Contains(out, fmt.Sprintf("GOVC-RESULT %d errnil %v\n", i, isnil)) {
					match = false
				}
			}
		}
		if match && checked > 0 {
			confirmed = true
			why = "the real function returns exactly the results of the solver's counterexample, which violate the clause"
		}
	}
	if !confirmed {
		return false
	}
	var sb strings.Builder
	fmt.Fprintf(&sb, "failed obligation: %s\nclass: %s\nat: %s\nwhat: %s\nconfirmed: %s\n\n", r.Name, r.Class, r.Pos, r.Detail, why)
	mb, _ := json.MarshalIndent(compactModel(r.Model), "", " ")
	fmt.Fprintf(&sb, "solver model (%s):\n%s\n\n", r.Solver, mb)
	fmt.Fprintf(&sb, "replay test (run in %s as govc_replay_test.go via go test -overlay):\n%s\n", strings.TrimPrefix(pkgDir, "/repo/"), src.String())
	fmt.Fprintf(&sb, "command: %s\n\noutput:\n%s\n", cmdline, trim(out, 3000))
	os.WriteFile(path, []byte(sb.String()), 0o644)
	return true
}

func compactModel(m map[string]string) map[string]string {
	out := map[string]string{}
	for k, v := range m {
		if strings.Contains(k, "@byte") {
			continue
		}
		out[k] = v
	}
	return out
}
