package vc

import (
	"fmt"
	"go/token"
	"go/types"

	"golang.org/x/tools/go/ssa"

	"verif/internal/smt"
)

// autoInv is an invariant derived from the shape of a counting loop; it is checked like a written one.
type autoInv struct {
	label string
	build func(phiVals map[*ssa.Phi]Val) *smt.Term
}

// loopHeader cuts a loop at its header: check invariants on entry, havoc, assume invariants.
func (e *Engine) loopHeader(f *frame, li *loopInfo, b *ssa.BasicBlock, phis []*ssa.Phi, st *State) {
	c := e.C
	if li.mods == nil {
		li.mods = e.W.loopModSet(f.fn, li, e.OwnCheck)
	}
	// the header state before the havoc serves pure re-evaluation of invariant loads (their families are untouched)
	f.headEnv[b] = st.clone()
	autos := e.autoInvariants(f, li, b, phis)
	var written []*Clause
	if f.ct != nil {
		written = f.ct.Invariants[li.ordinal]
	}
	// inv-init
	phiVals := map[*ssa.Phi]Val{}
	for _, p := range phis {
		phiVals[p] = f.vals[p]
	}
	for _, a := range autos {
		e.oblige(st, "auto-inv-init", fmt.Sprintf("loop%d.%s", li.ordinal, a.label), a.build(phiVals), posOfBlock(e, b), "auto invariant holds on loop entry")
	}
	for i, cl := range written {
		t := e.evalClause(f, cl, st, nil, b)
		e.oblige(st, "inv-init", fmt.Sprintf("loop%d.%s", li.ordinal, clauseLabel(cl, i)), t, posOfBlock(e, b), "invariant holds on loop entry: "+cl.Text)
	}
	// writers listed as wstream targets stay append-only across the loop (automatic invariant)
	for k, key := range e.wstreamKeys {
		cond := e.appendOnly(e.ghostGet(f.topEntry(), gCount, key), e.ghostGet(f.topEntry(), gWData, key), e.ghostGet(st, gCount, key), e.ghostGet(st, gWData, key))
		e.oblige(st, "auto-inv-init", fmt.Sprintf("loop%d.appendonly%d", li.ordinal, k), cond, posOfBlock(e, b), "writer is append-only on loop entry")
	}
	// havoc
	ms := li.mods
	e.havocFamilies(st, ms.list())
	na := c.Fresh("alloc.loop", smt.Int)
	e.assume(st, c.Op(">=", smt.Bool, na, st.Alloc))
	st.Alloc = na
	for _, p := range phis {
		old := f.vals[p]
		nv := e.fresh("loop."+p.Comment, p.Type())
		if old.Ptr != nil && !old.Ptr.whole(e) {
			panic(reject("loop-carried interior pointer"))
		}
		f.vals[p] = nv
		e.assume(st, e.validVal(st, nv))
	}
	f.headEnv[b] = st.clone()
	// assume invariants
	phiVals = map[*ssa.Phi]Val{}
	for _, p := range phis {
		phiVals[p] = f.vals[p]
	}
	for _, a := range autos {
		e.assume(st, a.build(phiVals))
	}
	for _, key := range e.wstreamKeys {
		if !ms.all && !ms.fams["G<stream>"] {
			break // the loop does not touch any stream
		}
		// after the havoc: contents = entry contents with an unknown chunk appended
		c0 := e.ghostGet(f.topEntry(), gCount, key)
		w0 := e.ghostGet(f.topEntry(), gWData, key)
		newCnt := c.Fresh("loop.count", smt.BV(64))
		chunk := c.Fresh("loop.chunk", bytesInner)
		e.ghostSet(st, gCount, key, newCnt)
		e.ghostSet(st, gWData, key, c.App("arr.splice."+sortTag(smt.BV(8)), bytesInner, w0, c0, chunk, c.BVLit64(0, 64), bvsub(c, newCnt, c0)))
		e.assume(st, bvle(c, c0, newCnt))
	}
	for _, cl := range written {
		e.assume(st, e.evalClause(f, cl, st, nil, b))
	}
	if f.top || true {
		f.autos = appendAutos(f.autos, b, autos)
	}
}

func appendAutos(m map[*ssa.BasicBlock][]autoInv, b *ssa.BasicBlock, a []autoInv) map[*ssa.BasicBlock][]autoInv {
	if m == nil {
		m = map[*ssa.BasicBlock][]autoInv{}
	}
	m[b] = a
	return m
}

func posOfBlock(e *Engine, b *ssa.BasicBlock) string {
	for _, in := range b.Instrs {
		if p := posOf(e.W.Prog, in); p != "" {
			return p
		}
	}
	return ""
}

// loopBackEdge checks that the invariants are re-established along a back edge.
func (e *Engine) loopBackEdge(f *frame, li *loopInfo, latch, header *ssa.BasicBlock, st *State, cond *smt.Term) {
	bs := st.clone()
	bs.Reach = cond
	// values of the header phis along this edge
	var phis []*ssa.Phi
	for _, in := range header.Instrs {
		if p, ok := in.(*ssa.Phi); ok {
			phis = append(phis, p)
		} else {
			break
		}
	}
	idx := -1
	for j, p := range header.Preds {
		if p == latch {
			idx = j
		}
	}
	next := map[*ssa.Phi]Val{}
	override := map[ssa.Value]Val{}
	for _, p := range phis {
		v := e.retag(f.get(p.Edges[idx]), p.Type())
		next[p] = v
		override[p] = v
	}
	for _, a := range f.autos[header] {
		e.oblige(bs, "auto-inv-step", fmt.Sprintf("loop%d.%s", li.ordinal, a.label), a.build(next), posOfBlock(e, latch), "auto invariant preserved")
	}
	for k, key := range e.wstreamKeys {
		cond := e.appendOnly(e.ghostGet(f.topEntry(), gCount, key), e.ghostGet(f.topEntry(), gWData, key), e.ghostGet(bs, gCount, key), e.ghostGet(bs, gWData, key))
		e.oblige(bs, "auto-inv-step", fmt.Sprintf("loop%d.appendonly%d", li.ordinal, k), cond, posOfBlock(e, latch), "writer stays append-only across an iteration")
	}
	if f.ct != nil {
		for i, cl := range f.ct.Invariants[li.ordinal] {
			t := e.evalClause(f, cl, bs, override, header)
			e.oblige(bs, "inv-step", fmt.Sprintf("loop%d.%s", li.ordinal, clauseLabel(cl, i)), t, posOfBlock(e, latch), "invariant preserved: "+cl.Text)
		}
		// termination measure
		if dc := f.ct.Decreases[li.ordinal]; dc != nil {
			head := f.headEnv[header]
			before := e.evalMeasure(f, dc, head, nil, header)
			after := e.evalMeasure(f, dc, bs, override, header)
			c := e.C
			w := before.Sort.Width()
			ok := c.And(c.Op("bvslt", smt.Bool, after, before), c.Op("bvsle", smt.Bool, c.BVLit64(0, w), before))
			e.oblige(bs, "decreases", fmt.Sprintf("loop%d", li.ordinal), ok, posOfBlock(e, latch), "loop measure decreases and is bounded below: "+dc.Text)
		}
	}
	for _, a := range f.autoDec[header] {
		e.oblige(bs, "auto-decreases", fmt.Sprintf("loop%d", li.ordinal), a.build(next), posOfBlock(e, latch), "counting loop makes progress")
	}
}

// autoInvariants recognises counting loops:
//
//	i := phi [init, i+1]   with the loop guarded by  i < n   (for i := a; i < n; i++)
//	k := phi [-1, k+1]     with the loop guarded by  k+1 < n (range over a slice)
//
// and yields  init <= i  and  (init <= n ==> i <= n)  in the comparison's signedness. Both are inductive by
// construction given the guard; they are nevertheless checked as obligations of class auto-inv-*.
func (e *Engine) autoInvariants(f *frame, li *loopInfo, header *ssa.BasicBlock, phis []*ssa.Phi) []autoInv {
	c := e.C
	var out []autoInv
	for _, p := range phis {
		p := p
		if !isInteger(p.Type()) {
			continue
		}
		// find init (single non-back-edge value) and step
		var init ssa.Value
		var step *ssa.BinOp
		ok := true
		down := false
		for j, pred := range header.Preds {
			ev := p.Edges[j]
			if f.back[edge{pred, header}] {
				bo, isBin := ev.(*ssa.BinOp)
				if isBin && bo.X == ssa.Value(p) && ((bo.Op == token.SUB && isConstInt(bo.Y, 1)) || (bo.Op == token.ADD && isConstInt(bo.Y, -1))) {
					if step != nil && step != bo {
						ok = false
						break
					}
					step = bo
					down = true
					continue
				}
				if !isBin || bo.Op != token.ADD || bo.X != ssa.Value(p) || !isConstOne(bo.Y) {
					ok = false
					break
				}
				if step != nil && step != bo {
					ok = false
					break
				}
				step = bo
			} else {
				if init != nil && init != ev {
					ok = false
					break
				}
				init = ev
			}
		}
		if !ok || init == nil || step == nil {
			continue
		}
		if _, isPhi := init.(*ssa.Phi); isPhi && li.blocks[init.(*ssa.Phi).Block()] {
			continue
		}
		if down {
			if a := e.autoDown(f, li, header, p, init, step); a != nil {
				out = append(out, a...)
			}
			continue
		}
		// guard: a comparison (p < n) or (p+1 < n) controlling exit, found in header or in the block of step
		var bound ssa.Value
		var signed, strict bool
		var guarded ssa.Value
		for blk := range li.blocks {
			iff, isIf := blk.Instrs[len(blk.Instrs)-1].(*ssa.If)
			if !isIf {
				continue
			}
			cmp, isCmp := iff.Cond.(*ssa.BinOp)
			if !isCmp || (cmp.Op != token.LSS && cmp.Op != token.LEQ) {
				continue
			}
			if cmp.X != ssa.Value(p) && cmp.X != ssa.Value(step) {
				continue
			}
			// false branch must leave the loop, true branch stay
			if li.blocks[blk.Succs[1]] || !li.blocks[blk.Succs[0]] {
				continue
			}
			// the guard must dominate every latch
			dom := true
			for _, l := range li.latches {
				if !blk.Succs[0].Dominates(l) && blk.Succs[0] != l {
					dom = false
				}
			}
			if !dom {
				continue
			}
			// bound must be loop-invariant
			if !loopInvariant(li, cmp.Y, 5) {
				continue
			}
			bound = cmp.Y
			signed = isSigned(cmp.X.Type())
			strict = cmp.Op == token.LSS
			guarded = cmp.X
			break
		}
		if bound == nil || !strict {
			continue
		}
		le, lt := "bvule", "bvult"
		if signed {
			le, lt = "bvsle", "bvslt"
		}
		initV := f.get(init).Terms[0]
		boundV := e.pureEval(f, li, bound).Terms[0]
		name := p.Comment
		if name == "" {
			name = p.Name()
		}
		out = append(out, autoInv{label: name + ".lower", build: func(pv map[*ssa.Phi]Val) *smt.Term {
			return c.Op(le, smt.Bool, initV, pv[p].Terms[0])
		}})
		w := initV.Sort.Width()
		if guarded == ssa.Value(p) {
			out = append(out, autoInv{label: name + ".upper", build: func(pv map[*ssa.Phi]Val) *smt.Term {
				return c.Implies(c.Op(le, smt.Bool, initV, boundV), c.Op(le, smt.Bool, pv[p].Terms[0], boundV))
			}})
		} else {
			// guarded value is p+1: p < n whenever init < n
			out = append(out, autoInv{label: name + ".upper", build: func(pv map[*ssa.Phi]Val) *smt.Term {
				return c.Implies(c.Op(lt, smt.Bool, initV, boundV), c.Op(lt, smt.Bool, pv[p].Terms[0], boundV))
			}})
		}
		// progress: bound - i strictly decreases (i increases by one and stays below the bound)
		hp := p
		f.autoDec = appendAutos(f.autoDec, header, []autoInv{{label: name, build: func(pv map[*ssa.Phi]Val) *smt.Term {
			cur := f.vals[hp].Terms[0]
			return c.And(c.Eq(pv[hp].Terms[0], c.Op("bvadd", smt.BV(w), cur, c.BVLit64(1, w))), c.Op(lt, smt.Bool, cur, pv[hp].Terms[0]))
		}}})
	}
	return out
}

// autoDown handles  for i := init; i >= c; i--  (also i > c): invariant i <= init (signed), progress i' = i-1.
func (e *Engine) autoDown(f *frame, li *loopInfo, header *ssa.BasicBlock, p *ssa.Phi, init ssa.Value, step *ssa.BinOp) []autoInv {
	c := e.C
	if !isSigned(p.Type()) {
		return nil
	}
	found := false
	for blk := range li.blocks {
		iff, isIf := blk.Instrs[len(blk.Instrs)-1].(*ssa.If)
		if !isIf {
			continue
		}
		cmp, isCmp := iff.Cond.(*ssa.BinOp)
		if !isCmp || (cmp.Op != token.GEQ && cmp.Op != token.GTR) || cmp.X != ssa.Value(p) {
			continue
		}
		if _, isConst := cmp.Y.(*ssa.Const); !isConst {
			continue
		}
		if li.blocks[blk.Succs[1]] || !li.blocks[blk.Succs[0]] {
			continue
		}
		dom := true
		for _, l := range li.latches {
			if !blk.Succs[0].Dominates(l) && blk.Succs[0] != l {
				dom = false
			}
		}
		if dom {
			found = true
		}
	}
	if !found {
		return nil
	}
	initV := f.get(init).Terms[0]
	name := p.Comment
	if name == "" {
		name = p.Name()
	}
	w := initV.Sort.Width()
	f.autoDec = appendAutos(f.autoDec, header, []autoInv{{label: name, build: func(pv map[*ssa.Phi]Val) *smt.Term {
		cur := f.vals[p].Terms[0]
		return c.And(c.Eq(pv[p].Terms[0], c.Op("bvsub", smt.BV(w), cur, c.BVLit64(1, w))), c.Op("bvslt", smt.Bool, pv[p].Terms[0], cur))
	}}})
	return []autoInv{{label: name + ".upper", build: func(pv map[*ssa.Phi]Val) *smt.Term {
		return c.Op("bvsle", smt.Bool, pv[p].Terms[0], initV)
	}}}
}

// loopInvariant: v does not change across iterations (defined outside the loop, or a pure function of such values).
func loopInvariant(li *loopInfo, v ssa.Value, depth int) bool {
	inst, isInst := v.(ssa.Instruction)
	if !isInst || !li.blocks[inst.Block()] {
		return true
	}
	if depth == 0 {
		return false
	}
	switch x := v.(type) {
	case *ssa.UnOp:
		// a load is invariant when its address is and the loop writes nothing of that heap family
		if x.Op != token.MUL || li.mods == nil || li.mods.all {
			return false
		}
		fam, ok := storeFamily(x.X, true)
		if !ok || li.mods.fams[fam] {
			return false
		}
		return loopInvariant(li, x.X, depth-1)
	case *ssa.FieldAddr:
		return loopInvariant(li, x.X, depth-1)
	case *ssa.Convert:
		return loopInvariant(li, x.X, depth-1)
	case *ssa.BinOp:
		switch x.Op {
		case token.ADD, token.SUB, token.MUL, token.AND, token.OR, token.XOR, token.SHL, token.SHR:
			return loopInvariant(li, x.X, depth-1) && loopInvariant(li, x.Y, depth-1)
		}
	case *ssa.Call:
		if b, ok := x.Call.Value.(*ssa.Builtin); ok && b.Name() == "len" && isSlice(x.Call.Args[0].Type()) {
			return loopInvariant(li, x.Call.Args[0], depth-1)
		}
	}
	return false
}

// pureEval computes a loop-invariant value that may be (re)computed inside the loop.
func (e *Engine) pureEval(f *frame, li *loopInfo, v ssa.Value) Val {
	inst, isInst := v.(ssa.Instruction)
	if !isInst || !li.blocks[inst.Block()] {
		return f.get(v)
	}
	e.quiet++
	defer func() { e.quiet-- }()
	scratch := &State{Reach: e.C.True(), Heap: map[string]*smt.Term{}, Ver: map[string]int{}, Alloc: e.C.IntLit(1)}
	switch x := v.(type) {
	case *ssa.Convert:
		return e.convert(scratch, e.pureEval(f, li, x.X), x.X.Type(), x.Type(), "")
	case *ssa.BinOp:
		return e.binopVals(scratch, x.Op, e.pureEval(f, li, x.X), e.pureEval(f, li, x.Y), x.X.Type(), x.Y.Type(), x.Type(), "")
	case *ssa.Call:
		a := e.pureEval(f, li, x.Call.Args[0])
		return Val{Typ: x.Type(), Terms: []*smt.Term{a.Terms[2]}}
	case *ssa.UnOp:
		p := e.pureEval(f, li, x.X)
		e.noAssume++
		defer func() { e.noAssume-- }()
		return e.load(f.headEnv[li.header].clone(), p, x.Type())
	case *ssa.FieldAddr:
		p := e.pureEval(f, li, x.X)
		st0 := types.Unalias(x.X.Type()).Underlying().(*types.Pointer).Elem()
		off, n := e.fieldRange(st0, x.Field)
		np := *p.Ptr
		np.Off += off
		np.N = n
		return Val{Typ: x.Type(), Terms: p.Terms, Ptr: &np}
	}
	panic("pureEval")
}

func isConstInt(v ssa.Value, k int64) bool {
	c, ok := v.(*ssa.Const)
	if !ok || c.Value == nil || !isInteger(c.Type()) {
		return false
	}
	return c.Int64() == k
}

func isConstOne(v ssa.Value) bool {
	c, ok := v.(*ssa.Const)
	if !ok || c.Value == nil {
		return false
	}
	if !isInteger(c.Type()) {
		return false
	}
	return c.Int64() == 1
}

// frame conditions -----------------------------------------------------------------------------

// frameCheck is called before every store through p.
func (e *Engine) frameCheck(f *frame, st *State, p Val, pos string) {
	if p.Ptr == nil {
		return
	}
	kind := "cell:" + typeStr(p.Ptr.Root)
	if p.Ptr.IsElem {
		kind = "elem:" + typeStr(p.Ptr.Root)
	} else if el, ok := arrayElem(p.Ptr.Root); ok {
		kind = "elem:" + typeStr(el)
	}
	e.frameCheckRef(f, st, p.Terms[0], kind, pos)
}

// frameCheckRef emits the frame obligation for a write to the object ref (if the top contract restricts writes).
func (e *Engine) frameCheckRef(f *frame, st *State, ref *smt.Term, kind string, pos string) {
	top := f
	for top.parent != nil {
		top = top.parent
	}
	if top.frameRule == nil {
		return
	}
	top.frameRule(e, st, ref, kind, pos)
}

var _ = types.Typ
