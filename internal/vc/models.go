package vc

import (
	"fmt"
	"go/types"
	"math/big"
	"strings"

	"verif/internal/smt"
)

// Assumed contracts of functions outside the repository (DESIGN.md Appendix C). Every model that is used
// is reported in evidence under assumptions.

type callModel func(e *Engine, f *frame, st *State, args []Val, rt types.Type, pos string) Val
type invokeModel func(e *Engine, f *frame, st *State, recv Val, args []Val, rt types.Type, pos string) Val

var callModels map[string]callModel
var invokeModels map[string]invokeModel

const (
	gCount = "G<stream>.count"
	gPos   = "G<stream>.pos"
	gWData = "G<stream>.wdata"
	pData  = "P<stream>.data"
	pAvail = "P<stream>.avail"
)

var bytesInner = smt.Array(smt.BV(64), smt.BV(8))

func (e *Engine) ghost(st *State, name string) *smt.Term {
	switch name {
	case gCount, gPos, pAvail:
		return e.heapArr(st, name, smt.Array(smt.Int, smt.BV(64)))
	}
	return e.heapArr(st, name, smt.Array(smt.Int, bytesInner))
}

func (e *Engine) ghostGet(st *State, name string, key *smt.Term) *smt.Term {
	return e.C.Select(e.ghost(st, name), key)
}

func (e *Engine) ghostSet(st *State, name string, key, v *smt.Term) {
	if e.curFrame != nil && e.quiet == 0 {
		switch name {
		case gCount:
			e.frameCheckRef(e.curFrame, st, key, "wstream", "")
		case gPos:
			e.frameCheckRef(e.curFrame, st, key, "rstream", "")
		}
	}
	if e.UseTokens && e.quiet == 0 {
		// every write appends tokens of unknown shape, every read consumes some (contracts with token clauses say which)
		switch name {
		case gCount:
			e.tokHavocWrite(st, key)
		case gPos:
			e.tokHavocRead(st, key)
		}
	}
	st.Heap[name] = e.C.Store(e.ghost(st, name), key, v)
}

// newError returns a fresh non-nil error value.
func (e *Engine) newError(st *State, t types.Type) Val {
	ref := e.newRef(st)
	return Val{Typ: t, Terms: []*smt.Term{e.C.IntLit(int64(e.typeTag(errTagType))), ref}}
}

var errTagType = types.NewNamed(types.NewTypeName(0, nil, "*opaque.error", nil), types.Typ[types.Int], nil)

// maybeError returns an error value that may or may not be nil, and the condition "is nil".
func (e *Engine) maybeError(st *State, t types.Type, hint string) (Val, *smt.Term) {
	c := e.C
	ok := c.Fresh(hint+".ok", smt.Bool)
	ref := e.newRef(st)
	tag := c.Ite(ok, c.IntLit(0), c.IntLit(int64(e.typeTag(errTagType))))
	pay := c.Ite(ok, c.IntLit(0), ref)
	return Val{Typ: t, Terms: []*smt.Term{tag, pay}}, ok
}

func errorType() types.Type { return types.Universe.Lookup("error").Type() }

func streamKey(v Val) *smt.Term {
	if isInterface(v.Typ) {
		return v.Terms[1]
	}
	return v.Terms[0]
}

func bvle(c *smt.Ctx, a, b *smt.Term) *smt.Term  { return c.Op("bvsle", smt.Bool, a, b) }
func bvadd(c *smt.Ctx, a, b *smt.Term) *smt.Term { return c.Op("bvadd", smt.BV(64), a, b) }
func bvsub(c *smt.Ctx, a, b *smt.Term) *smt.Term { return c.Op("bvsub", smt.BV(64), a, b) }

// readerState returns pos and avail of a reader and records their basic invariant.
func (e *Engine) readerState(st *State, key *smt.Term) (pos, avail *smt.Term) {
	c := e.C
	pos = e.ghostGet(st, gPos, key)
	avail = e.ghostGet(st, pAvail, key)
	e.assume(st, c.And(bvle(c, c.BVLit64(0, 64), pos), bvle(c, pos, avail), bvle(c, avail, c.BVLit64(sizeBound, 64))))
	return
}

// readN models reading exactly n (a term) bytes: returns ok and the start position; advances pos.
func (e *Engine) readN(st *State, r Val, key, n *smt.Term, hint string) (ok, start *smt.Term, errv Val) {
	c := e.C
	pos, avail := e.readerState(st, key)
	errv, ok = e.maybeError(st, errorType(), hint)
	e.inMemorySource(st, r, key, pos, n, ok)
	adv := c.Fresh(hint+".adv", smt.BV(64))
	e.assume(st, c.And(bvle(c, c.BVLit64(0, 64), adv), bvle(c, adv, n), bvle(c, bvadd(c, pos, adv), avail),
		c.Implies(ok, c.Eq(adv, n)),
		// a short read is always reported as an error
		c.Implies(c.Not(ok), c.Or(c.Not(c.Eq(adv, n)), c.True()))))
	e.ghostSet(st, gPos, key, bvadd(c, pos, adv))
	return ok, pos, errv
}

// bufferInv: for a *bytes.Buffer the readable extent is what has been written. Writes made through contracts do not
// synchronise the reader view (lazy synchronisation), so it is SET here, at the use, never assumed: assuming
// avail == count with a stale avail made every state after a contract-level write contradictory (and every lemma
// that calls buf.Len() after Encode vacuously true - found in session 4 by a reachability cover).
func (e *Engine) bufferInv(st *State, key *smt.Term) {
	e.syncBuffer(st, key, nil)
}

func (e *Engine) writerCount(st *State, key *smt.Term) *smt.Term {
	c := e.C
	cnt := e.ghostGet(st, gCount, key)
	e.assume(st, c.And(bvle(c, c.BVLit64(0, 64), cnt), bvle(c, cnt, c.BVLit64(sizeBound, 64))))
	return cnt
}

// beBytes returns the big-endian (or little-endian) bytes of a bit-vector.
func beBytes(c *smt.Ctx, v *smt.Term, little bool) []*smt.Term {
	w := v.Sort.Width()
	n := w / 8
	var out []*smt.Term
	for i := 0; i < n; i++ {
		hi := w - 1 - 8*i
		out = append(out, c.Op(fmt.Sprintf("(_ extract %d %d)", hi, hi-7), smt.BV(8), v))
	}
	if little {
		for i, j := 0, len(out)-1; i < j; i, j = i+1, j-1 {
			out[i], out[j] = out[j], out[i]
		}
	}
	return out
}

func fromBytes(c *smt.Ctx, bs []*smt.Term, little bool) *smt.Term {
	if little {
		r := make([]*smt.Term, len(bs))
		for i := range bs {
			r[len(bs)-1-i] = bs[i]
		}
		bs = r
	}
	cur := bs[0]
	for i := 1; i < len(bs); i++ {
		cur = c.Op("concat", smt.BV(8*(i+1)), cur, bs[i])
	}
	return cur
}

func isLittle(order Val) bool {
	if order.Known != nil {
		return strings.Contains(strings.ToLower(order.Known.Typ.String()), "little")
	}
	panic(reject("binary byte order not statically known"))
}

func init() {
	callModels = map[string]callModel{
		"fmt.Errorf": func(e *Engine, f *frame, st *State, args []Val, rt types.Type, pos string) Val {
			return e.newError(st, rt)
		},
		"errors.New": func(e *Engine, f *frame, st *State, args []Val, rt types.Type, pos string) Val {
			return e.newError(st, rt)
		},
		"fmt.Sprintf": func(e *Engine, f *frame, st *State, args []Val, rt types.Type, pos string) Val {
			v := e.fresh("sprintf", rt)
			e.assume(st, e.validVal(st, v))
			return v
		},
		"fmt.Sprint": func(e *Engine, f *frame, st *State, args []Val, rt types.Type, pos string) Val {
			v := e.fresh("sprint", rt)
			e.assume(st, e.validVal(st, v))
			return v
		},
		"encoding/hex.Dump": func(e *Engine, f *frame, st *State, args []Val, rt types.Type, pos string) Val {
			v := e.fresh("hexdump", rt)
			e.assume(st, e.validVal(st, v))
			return v
		},
		"encoding/binary.Read":  modelBinaryRead,
		"encoding/binary.Write": modelBinaryWrite,
		"io.ReadFull":           modelReadFull,
		"io.LimitReader":        modelLimitReader,
		"io.CopyN":              modelCopyN,
		"bytes.NewBuffer":       modelNewBuffer,
		"bytes.NewReader":       modelNewReader,
		"(*bytes.Buffer).Write": func(e *Engine, f *frame, st *State, args []Val, rt types.Type, pos string) Val {
			c := e.C
			e.nilCheck(st, args[0], pos, "nil *bytes.Buffer")
			key := args[0].Terms[0]
			p := args[1]
			cnt := e.writerCount(st, key)
			arr := e.heapArr(st, elemName(types.Typ[types.Uint8], 0), smt.Array(smt.Int, bytesInner))
			e.ghostSet(st, gWData, key, c.App("arr.splice."+sortTag(smt.BV(8)), bytesInner, e.ghostGet(st, gWData, key), cnt, c.Select(arr, p.Terms[0]), p.Terms[1], p.Terms[2]))
			e.ghostSet(st, gCount, key, bvadd(c, cnt, p.Terms[2]))
			e.syncBuffer(st, key, nil)
			return Val{Typ: rt, Terms: []*smt.Term{p.Terms[2], c.IntLit(0), c.IntLit(0)}}
		},
		"(*bytes.Buffer).WriteString": func(e *Engine, f *frame, st *State, args []Val, rt types.Type, pos string) Val {
			c := e.C
			e.nilCheck(st, args[0], pos, "nil *bytes.Buffer")
			key := args[0].Terms[0]
			n := e.strLen(args[1].Terms[0])
			cnt := e.writerCount(st, key)
			e.ghostSet(st, gWData, key, c.App("arr.splice."+sortTag(smt.BV(8)), bytesInner, e.ghostGet(st, gWData, key), cnt, c.App("gs.bytes", bytesInner, args[1].Terms[0]), c.BVLit64(0, 64), n))
			e.ghostSet(st, gCount, key, bvadd(c, cnt, n))
			e.syncBuffer(st, key, nil)
			return Val{Typ: rt, Terms: []*smt.Term{n, c.IntLit(0), c.IntLit(0)}}
		},
		"(*bytes.Buffer).WriteByte": func(e *Engine, f *frame, st *State, args []Val, rt types.Type, pos string) Val {
			c := e.C
			e.nilCheck(st, args[0], pos, "nil *bytes.Buffer")
			key := args[0].Terms[0]
			cnt := e.writerCount(st, key)
			e.ghostSet(st, gWData, key, c.Store(e.ghostGet(st, gWData, key), cnt, args[1].Terms[0]))
			e.ghostSet(st, gCount, key, bvadd(c, cnt, c.BVLit64(1, 64)))
			e.syncBuffer(st, key, nil)
			return Val{Typ: rt, Terms: []*smt.Term{c.IntLit(0), c.IntLit(0)}}
		},
		"(*bytes.Buffer).Len": func(e *Engine, f *frame, st *State, args []Val, rt types.Type, pos string) Val {
			c := e.C
			e.nilCheck(st, args[0], pos, "nil *bytes.Buffer")
			key := args[0].Terms[0]
			e.bufferInv(st, key)
			cnt := e.writerCount(st, key)
			pos0 := e.ghostGet(st, gPos, key)
			e.assume(st, c.And(bvle(c, c.BVLit64(0, 64), pos0), bvle(c, pos0, cnt)))
			return Val{Typ: rt, Terms: []*smt.Term{bvsub(c, cnt, pos0)}}
		},
		"(*bytes.Buffer).Bytes": func(e *Engine, f *frame, st *State, args []Val, rt types.Type, pos string) Val {
			c := e.C
			e.nilCheck(st, args[0], pos, "nil *bytes.Buffer")
			key := args[0].Terms[0]
			e.bufferInv(st, key)
			cnt := e.writerCount(st, key)
			pos0 := e.ghostGet(st, gPos, key)
			e.assume(st, c.And(bvle(c, c.BVLit64(0, 64), pos0), bvle(c, pos0, cnt)))
			ref := e.newRef(st)
			name := elemName(types.Typ[types.Uint8], 0)
			arr := e.heapArr(st, name, smt.Array(smt.Int, bytesInner))
			st.Heap[name] = c.Store(arr, ref, e.ghostGet(st, gWData, key))
			n := bvsub(c, cnt, pos0)
			cp := c.Fresh("buf.cap", smt.BV(64))
			e.assume(st, c.And(bvle(c, n, cp), bvle(c, cp, c.BVLit64(sizeBound, 64))))
			e.note("(*bytes.Buffer).Bytes returns a view modelled as a copy (later writes to the buffer are not reflected in the slice)")
			return Val{Typ: rt, Terms: []*smt.Term{ref, pos0, n, cp}}
		},
		"(*bytes.Buffer).String": func(e *Engine, f *frame, st *State, args []Val, rt types.Type, pos string) Val {
			c := e.C
			key := args[0].Terms[0]
			cnt := e.writerCount(st, key)
			pos0 := e.ghostGet(st, gPos, key)
			s := c.App("gs.of", smt.Str, e.ghostGet(st, gWData, key), pos0, bvsub(c, cnt, pos0))
			e.assume(st, c.Eq(e.strLen(s), bvsub(c, cnt, pos0)))
			return Val{Typ: rt, Terms: []*smt.Term{s}}
		},
		"(*bytes.Reader).Len": func(e *Engine, f *frame, st *State, args []Val, rt types.Type, pos string) Val {
			c := e.C
			e.nilCheck(st, args[0], pos, "nil *bytes.Reader")
			p, a := e.readerState(st, args[0].Terms[0])
			return Val{Typ: rt, Terms: []*smt.Term{bvsub(c, a, p)}}
		},
		// sync/atomic on int32 cells: plain loads and stores under the sequential semantics
		"sync/atomic.LoadInt32": func(e *Engine, f *frame, st *State, args []Val, rt types.Type, pos string) Val {
			e.nilCheck(st, args[0], pos, "atomic.LoadInt32 of nil")
			return e.load(st, args[0], types.Typ[types.Int32])
		},
		"sync/atomic.StoreInt32": func(e *Engine, f *frame, st *State, args []Val, rt types.Type, pos string) Val {
			e.nilCheck(st, args[0], pos, "atomic.StoreInt32 to nil")
			e.frameCheck(f, st, args[0], pos)
			e.store(st, args[0], Val{Typ: types.Typ[types.Int32], Terms: args[1].Terms})
			return Val{Typ: rt}
		},
		"sync/atomic.CompareAndSwapInt32": func(e *Engine, f *frame, st *State, args []Val, rt types.Type, pos string) Val {
			c := e.C
			e.nilCheck(st, args[0], pos, "atomic.CompareAndSwapInt32 on nil")
			cur := e.load(st, args[0], types.Typ[types.Int32])
			hit := c.Eq(cur.Terms[0], args[1].Terms[0])
			e.frameCheck(f, st, args[0], pos)
			e.store(st, args[0], Val{Typ: types.Typ[types.Int32], Terms: []*smt.Term{c.Ite(hit, args[2].Terms[0], cur.Terms[0])}})
			return Val{Typ: rt, Terms: []*smt.Term{hit}}
		},
		"math.IsNaN": func(e *Engine, f *frame, st *State, args []Val, rt types.Type, pos string) Val {
			return Val{Typ: rt, Terms: []*smt.Term{e.C.Op("fp.isNaN", smt.Bool, args[0].Terms[0])}}
		},
		"math.IsInf": func(e *Engine, f *frame, st *State, args []Val, rt types.Type, pos string) Val {
			c := e.C
			x, sign := args[0].Terms[0], args[1].Terms[0]
			inf := c.Op("fp.isInfinite", smt.Bool, x)
			posv := c.Op("fp.isPositive", smt.Bool, x)
			z := c.BVLit64(0, 64)
			r := c.And(inf, c.Or(c.Eq(sign, z), c.And(c.Op("bvsgt", smt.Bool, sign, z), posv), c.And(c.Op("bvslt", smt.Bool, sign, z), c.Not(posv))))
			return Val{Typ: rt, Terms: []*smt.Term{r}}
		},
		"math.Float32bits": func(e *Engine, f *frame, st *State, args []Val, rt types.Type, pos string) Val {
			return e.floatBits(st, args[0].Terms[0], 32, rt)
		},
		"math.Float64bits": func(e *Engine, f *frame, st *State, args []Val, rt types.Type, pos string) Val {
			return e.floatBits(st, args[0].Terms[0], 64, rt)
		},
		"math.Float32frombits": func(e *Engine, f *frame, st *State, args []Val, rt types.Type, pos string) Val {
			return Val{Typ: rt, Terms: []*smt.Term{e.C.Op("(_ to_fp 8 24)", smt.F32, args[0].Terms[0])}}
		},
		"math.Float64frombits": func(e *Engine, f *frame, st *State, args []Val, rt types.Type, pos string) Val {
			return Val{Typ: rt, Terms: []*smt.Term{e.C.Op("(_ to_fp 11 53)", smt.F64, args[0].Terms[0])}}
		},
		"math/bits.LeadingZeros64": func(e *Engine, f *frame, st *State, args []Val, rt types.Type, pos string) Val {
			return Val{Typ: rt, Terms: []*smt.Term{e.leadingZeros(args[0].Terms[0], 64)}}
		},
		"math/bits.LeadingZeros32": func(e *Engine, f *frame, st *State, args []Val, rt types.Type, pos string) Val {
			return Val{Typ: rt, Terms: []*smt.Term{e.leadingZeros(args[0].Terms[0], 32)}}
		},
	}
	callModels["reflect.TypeOf"] = func(e *Engine, f *frame, st *State, args []Val, rt types.Type, pos string) Val {
		c := e.C
		v := e.havocResult(st, "typeof", rt)
		// reflect.TypeOf(x) is nil exactly for a nil interface value
		e.assume(st, c.Eq(c.Eq(v.Terms[0], c.IntLit(0)), c.Eq(args[0].Terms[0], c.IntLit(0))))
		e.assume(st, c.Implies(c.Not(c.Eq(v.Terms[0], c.IntLit(0))), c.Not(c.Eq(v.Terms[1], c.IntLit(0)))))
		return v
	}
	callModels["strconv.ParseInt"] = func(e *Engine, f *frame, st *State, args []Val, rt types.Type, pos string) Val {
		c := e.C
		errv, okc := e.maybeError(st, errorType(), "parseint")
		r := c.Fresh("parseint.v", smt.BV(64))
		bits, isLit := args[2].Terms[0].BVValue()
		base, isLit2 := args[1].Terms[0].BVValue()
		if !isLit || !isLit2 || base.Int64() != 10 {
			panic(reject("strconv.ParseInt with non-constant base/bitSize"))
		}
		b := uint(bits.Int64())
		if b == 0 {
			b = 64
		}
		lo := new(big.Int).Neg(new(big.Int).Lsh(big.NewInt(1), b-1))
		hi := new(big.Int).Sub(new(big.Int).Lsh(big.NewInt(1), b-1), big.NewInt(1))
		num := c.App("gs.num", smt.BV(mathW), args[0].Terms[0])
		// success: the result is the number the string denotes and it fits bitSize
		e.assume(st, c.Implies(okc, c.And(c.Eq(c.Extend(r, mathW, true), num), c.Op("bvsle", smt.Bool, c.BVLit(lo, 64), r), c.Op("bvsle", smt.Bool, r, c.BVLit(hi, 64)))))
		return Val{Typ: rt, Terms: []*smt.Term{r, errv.Terms[0], errv.Terms[1]}}
	}
	callModels["strconv.FormatInt"] = func(e *Engine, f *frame, st *State, args []Val, rt types.Type, pos string) Val {
		c := e.C
		s := c.Fresh("formatint", smt.Str)
		if base, ok := args[1].Terms[0].BVValue(); !ok || base.Int64() != 10 {
			panic(reject("strconv.FormatInt with base != 10"))
		}
		e.assume(st, c.Eq(c.App("gs.num", smt.BV(mathW), s), c.Extend(args[0].Terms[0], mathW, true)))
		l := e.strLen(s)
		e.assume(st, c.And(bvle(c, c.BVLit64(1, 64), l), bvle(c, l, c.BVLit64(20, 64))))
		return Val{Typ: rt, Terms: []*smt.Term{s}}
	}
	registerBigModels()
	callModels["hash/crc32.Update"] = func(e *Engine, f *frame, st *State, args []Val, rt types.Type, pos string) Val {
		c := e.C
		// the standard CRC-32 state function: depends on the previous state and on the bytes only
		arr := e.heapArr(st, elemName(types.Typ[types.Uint8], 0), smt.Array(smt.Int, bytesInner))
		p := args[2]
		win := e.canonWindow(c.Select(arr, p.Terms[0]), p.Terms[1], p.Terms[2])
		return Val{Typ: rt, Terms: []*smt.Term{c.App("crc32.update", smt.BV(32), args[0].Terms[0], win, p.Terms[2])}}
	}
	// net.IP.To4 / To16: deterministic functions of the address bytes
	ipTo := func(want int64) callModel {
		return func(e *Engine, f *frame, st *State, args []Val, rt types.Type, pos string) Val {
			c := e.C
			ip := args[0]
			arr := e.heapArr(st, elemName(types.Typ[types.Uint8], 0), smt.Array(smt.Int, bytesInner))
			inner := c.Select(arr, ip.Terms[0])
			l4 := c.Eq(ip.Terms[2], c.BVLit64(4, 64))
			l16 := c.Eq(ip.Terms[2], c.BVLit64(16, 64))
			mapped := c.App("net.isV4Mapped", smt.Bool, inner, ip.Terms[1])
			fresh := e.newRef(st)
			z := c.BVLit64(0, 64)
			w := c.BVLit64(want, 64)
			var ok *smt.Term
			if want == 4 {
				ok = c.Or(l4, c.And(l16, mapped))
			} else {
				ok = c.Or(l4, l16)
			}
			same := l16
			if want == 4 {
				same = l4
			}
			// same length: the receiver itself; otherwise a fresh slice whose contents are a function of the address
			name := elemName(types.Typ[types.Uint8], 0)
			st.Heap[name] = c.Store(arr, fresh, c.App(fmt.Sprintf("net.to%d", want), bytesInner, inner, ip.Terms[1], ip.Terms[2]))
			ref := c.Ite(ok, c.Ite(same, ip.Terms[0], fresh), c.IntLit(0))
			off := c.Ite(c.And(ok, same), ip.Terms[1], z)
			ln := c.Ite(ok, w, z)
			return Val{Typ: rt, Terms: []*smt.Term{ref, off, ln, ln}}
		}
	}
	callModels["(net.IP).To4"] = ipTo(4)
	callModels["(net.IP).To16"] = ipTo(16)
	callModels["context.WithCancel"] = func(e *Engine, f *frame, st *State, args []Val, rt types.Type, pos string) Val {
		v := e.havocResult(st, "withcancel", rt)
		c := e.C
		// (ctx, cancel): both non-nil
		e.assume(st, c.And(c.Not(c.Eq(v.Terms[0], c.IntLit(0))), c.Not(c.Eq(v.Terms[1], c.IntLit(0))), c.Not(c.Eq(v.Terms[2], c.IntLit(0)))))
		return v
	}
	callModels["reflect.MakeSlice"] = func(e *Engine, f *frame, st *State, args []Val, rt types.Type, pos string) Val {
		c := e.C
		ln, cp := args[1].Terms[0], args[2].Terms[0]
		e.oblige(st, "alloc", "", c.And(bvle(c, c.BVLit64(0, 64), ln), bvle(c, ln, cp)), pos, "reflect.MakeSlice: 0 <= len <= cap")
		return e.havocResult(st, "makeslice", rt)
	}
	callModels["github.com/pierrec/lz4/v4.CompressBlockBound"] = func(e *Engine, f *frame, st *State, args []Val, rt types.Type, pos string) Val {
		c := e.C
		n := args[0].Terms[0]
		q, _ := e.divMod(st, n, c.BVLit64(255, 64), true)
		return Val{Typ: rt, Terms: []*smt.Term{bvadd(c, bvadd(c, n, q), c.BVLit64(16, 64))}}
	}
	callModels["github.com/pierrec/lz4/v4.CompressBlock"] = func(e *Engine, f *frame, st *State, args []Val, rt types.Type, pos string) Val {
		c := e.C
		src, dst := args[0], args[1]
		errv, okc := e.maybeError(st, errorType(), "lz4c")
		n := c.Fresh("lz4c.n", smt.BV(64))
		q, _ := e.divMod(st, src.Terms[2], c.BVLit64(255, 64), true)
		bound := bvadd(c, bvadd(c, src.Terms[2], q), c.BVLit64(16, 64))
		e.assume(st, c.And(bvle(c, c.BVLit64(0, 64), n), bvle(c, n, dst.Terms[2]),
			c.Implies(bvle(c, bound, dst.Terms[2]), c.And(okc, bvle(c, c.BVLit64(1, 64), n))),
			c.Implies(c.Not(okc), c.Eq(n, c.BVLit64(0, 64)))))
		e.frameCheckRef(f, st, dst.Terms[0], "elem:uint8", pos)
		name := elemName(types.Typ[types.Uint8], 0)
		arr := e.heapArr(st, name, smt.Array(smt.Int, bytesInner))
		srcInner := c.Select(arr, src.Terms[0])
		st.Heap[name] = c.Store(arr, dst.Terms[0], c.App("arr.splice."+sortTag(smt.BV(8)), bytesInner, c.Select(arr, dst.Terms[0]), dst.Terms[1],
			c.App("lz4.block", bytesInner, srcInner, src.Terms[1], src.Terms[2]), c.BVLit64(0, 64), n))
		return Val{Typ: rt, Terms: []*smt.Term{n, errv.Terms[0], errv.Terms[1]}}
	}
	callModels["github.com/pierrec/lz4/v4.UncompressBlock"] = func(e *Engine, f *frame, st *State, args []Val, rt types.Type, pos string) Val {
		c := e.C
		src, dst := args[0], args[1]
		// assumed contract of the LZ4 block decoder: a block is either invalid or denotes one byte string
		// (lz4.orig, of length lz4.origlen); decoding succeeds exactly when the block is valid and the destination
		// is at least that long, writes those bytes and returns their number; on failure it returns (0, err);
		// the empty block decodes to nothing.
		arr := e.heapArr(st, elemName(types.Typ[types.Uint8], 0), smt.Array(smt.Int, bytesInner))
		w := e.canonWindow(c.Select(arr, src.Terms[0]), src.Terms[1], src.Terms[2])
		valid := c.App("lz4.valid", smt.Bool, w, src.Terms[2])
		olen := c.App("lz4.origlen", smt.BV(64), w, src.Terms[2])
		orig := c.App("lz4.orig", bytesInner, w, src.Terms[2])
		z := c.BVLit64(0, 64)
		empty := c.Eq(src.Terms[2], z)
		e.assume(st, c.And(bvle(c, z, olen), c.Implies(empty, c.And(valid, c.Eq(olen, z)))))
		okc := c.And(valid, bvle(c, olen, dst.Terms[2]))
		ref := e.newRef(st)
		errv := Val{Typ: errorType(), Terms: []*smt.Term{c.Ite(okc, c.IntLit(0), c.IntLit(int64(e.typeTag(errTagType)))), c.Ite(okc, c.IntLit(0), ref)}}
		n := c.Ite(okc, olen, z)
		e.frameCheckRef(f, st, dst.Terms[0], "elem:uint8", pos)
		name := elemName(types.Typ[types.Uint8], 0)
		st.Heap[name] = c.Store(arr, dst.Terms[0], c.Ite(okc,
			c.App("arr.splice."+sortTag(smt.BV(8)), bytesInner, c.Select(arr, dst.Terms[0]), dst.Terms[1], orig, z, olen),
			c.Fresh("lz4d.garbage", bytesInner)))
		return Val{Typ: rt, Terms: []*smt.Term{n, errv.Terms[0], errv.Terms[1]}}
	}
	callModels["github.com/golang/snappy.Encode"] = func(e *Engine, f *frame, st *State, args []Val, rt types.Type, pos string) Val {
		if v, ok := args[0].Terms[0].BVValue(); ok && v.Sign() != 0 {
			panic(reject("snappy.Encode with non-nil dst"))
		}
		return e.havocResult(st, "snappy.enc", rt)
	}
	callModels["github.com/golang/snappy.Decode"] = func(e *Engine, f *frame, st *State, args []Val, rt types.Type, pos string) Val {
		return e.havocResult(st, "snappy.dec", rt)
	}
	callModels["(*bytes.Buffer).ReadFrom"] = func(e *Engine, f *frame, st *State, args []Val, rt types.Type, pos string) Val {
		c := e.C
		e.nilCheck(st, args[0], pos, "nil *bytes.Buffer")
		key := args[0].Terms[0]
		r := args[1]
		e.oblige(st, "nil", "", c.Not(c.Eq(r.Terms[0], c.IntLit(0))), pos, "ReadFrom nil reader")
		rkey := streamKey(r)
		pos0, avail := e.readerState(st, rkey)
		cnt := e.writerCount(st, key)
		errv, okc := e.maybeError(st, errorType(), "readfrom")
		k := c.Fresh("readfrom.k", smt.BV(64))
		e.assume(st, c.And(bvle(c, c.BVLit64(0, 64), k), bvle(c, bvadd(c, pos0, k), avail), c.Implies(okc, c.Eq(bvadd(c, pos0, k), avail))))
		e.ghostSet(st, gPos, rkey, bvadd(c, pos0, k))
		e.ghostSet(st, gWData, key, c.App("arr.splice."+sortTag(smt.BV(8)), bytesInner, e.ghostGet(st, gWData, key), cnt, e.ghostGet(st, pData, rkey), pos0, k))
		e.ghostSet(st, gCount, key, bvadd(c, cnt, k))
		e.syncBuffer(st, key, nil)
		return Val{Typ: rt, Terms: []*smt.Term{k, errv.Terms[0], errv.Terms[1]}}
	}
	callModels["(*bytes.Buffer).WriteTo"] = func(e *Engine, f *frame, st *State, args []Val, rt types.Type, pos string) Val {
		c := e.C
		e.nilCheck(st, args[0], pos, "nil *bytes.Buffer")
		key := args[0].Terms[0]
		w := args[1]
		e.oblige(st, "nil", "", c.Not(c.Eq(w.Terms[0], c.IntLit(0))), pos, "WriteTo nil writer")
		wkey := streamKey(w)
		cnt := e.writerCount(st, key)
		pos0 := e.ghostGet(st, gPos, key)
		e.assume(st, c.And(bvle(c, c.BVLit64(0, 64), pos0), bvle(c, pos0, cnt)))
		wcnt := e.writerCount(st, wkey)
		errv, okc := e.maybeError(st, errorType(), "writeto")
		e.inMemoryDest(st, w, okc)
		k := c.Fresh("writeto.k", smt.BV(64))
		e.assume(st, c.And(bvle(c, c.BVLit64(0, 64), k), bvle(c, bvadd(c, pos0, k), cnt), c.Implies(okc, c.Eq(bvadd(c, pos0, k), cnt))))
		e.ghostSet(st, gPos, key, bvadd(c, pos0, k))
		e.ghostSet(st, gWData, wkey, c.App("arr.splice."+sortTag(smt.BV(8)), bytesInner, e.ghostGet(st, gWData, wkey), wcnt, e.ghostGet(st, gWData, key), pos0, k))
		e.ghostSet(st, gCount, wkey, bvadd(c, wcnt, k))
		return Val{Typ: rt, Terms: []*smt.Term{k, errv.Terms[0], errv.Terms[1]}}
	}
	for _, order := range []string{"bigEndian", "littleEndian"} {
		little := order == "littleEndian"
		for _, w := range []int{16, 32, 64} {
			w := w
			callModels[fmt.Sprintf("(encoding/binary.%s).Uint%d", order, w)] = func(e *Engine, f *frame, st *State, args []Val, rt types.Type, pos string) Val {
				return e.byteOrderGet(st, args[1], w, little, rt, pos)
			}
			callModels[fmt.Sprintf("(encoding/binary.%s).PutUint%d", order, w)] = func(e *Engine, f *frame, st *State, args []Val, rt types.Type, pos string) Val {
				return e.byteOrderPut(f, st, args[1], args[2], w, little, rt, pos)
			}
		}
	}
	invokeModels = map[string]invokeModel{
		"io.Writer.Write": modelWriterWrite,
		"io.Reader.Read":  modelReaderRead,
		// io.Seeker (documented contract, ASSUMED): on success the offset is whence-base + offset. The ghost position of
		// a stream is the number of bytes consumed, so a seek past the end counts as min(offset, total): nothing more
		// can be read either way.
		"io.Seeker.Seek": func(e *Engine, f *frame, st *State, recv Val, args []Val, rt types.Type, pos string) Val {
			c := e.C
			key := streamKey(recv)
			p0, avail := e.readerState(st, key)
			off, whence := args[0].Terms[0], args[1].Terms[0]
			z := c.BVLit64(0, 64)
			base := c.Ite(c.Eq(whence, c.BVLit64(0, 64)), z, c.Ite(c.Eq(whence, c.BVLit64(1, 64)), p0, avail))
			target := bvadd(c, base, off)
			errv, okc := e.maybeError(st, errorType(), "seek")
			validWhence := c.And(bvle(c, z, whence), bvle(c, whence, c.BVLit64(2, 64)))
			inRange := c.And(bvle(c, c.BVLit64(-sizeBound, 64), off), bvle(c, off, c.BVLit64(sizeBound, 64)))
			e.assume(st, c.Implies(okc, c.And(validWhence, bvle(c, z, target))))
			e.assume(st, c.Implies(c.And(validWhence, inRange, bvle(c, z, target)), okc))
			np := c.Ite(okc, c.Ite(bvle(c, target, avail), target, avail), p0)
			e.ghostSet(st, gPos, key, np)
			e.note("io.Seeker.Seek: documented contract assumed (new offset = base(whence) + offset; negative result is an error)")
			return Val{Typ: rt, Terms: []*smt.Term{c.Ite(okc, target, z), errv.Terms[0], errv.Terms[1]}}
		},
		// ctx.Done(): a signal channel - nothing is ever sent on it, it is only closed; every call yields a channel whose
		// closed flag is unknown (cancellation by another goroutine or a timer may have happened at any time)
		"context.Context.Done": func(e *Engine, f *frame, st *State, recv Val, args []Val, rt types.Type, pos string) Val {
			v := e.havocResult(st, "ctxdone", rt)
			if ci, ok := e.chanInfoOf(rt); ok {
				_, ln, _, _ := e.chanArrs(st, ci)
				e.assume(st, e.C.Eq(e.C.Select(ln, v.Terms[0]), e.C.BVLit64(0, 64)))
				e.note("context.Context.Done(): a signal channel that is never sent on (length 0); whether it is closed is unknown at every call")
			}
			return v
		},
		"error.Error": func(e *Engine, f *frame, st *State, recv Val, args []Val, rt types.Type, pos string) Val {
			v := e.fresh("errstr", rt)
			e.assume(st, e.validVal(st, v))
			return v
		},
	}
}

func (e *Engine) floatBits(st *State, x *smt.Term, w int, rt types.Type) Val {
	c := e.C
	// bits(x) is the unique bit pattern b with to_fp(b) == x for non-NaN x; for NaN some NaN pattern.
	// a function of x (math.FloatNNbits is deterministic); its defining property is asserted at every use
	b := c.App(fmt.Sprintf("float%dbits", w), smt.BV(w), x)
	op := "(_ to_fp 11 53)"
	s := smt.F64
	if w == 32 {
		op = "(_ to_fp 8 24)"
		s = smt.F32
	}
	e.assume(st, c.Eq(c.Op(op, s, b), x))
	return Val{Typ: rt, Terms: []*smt.Term{b}}
}

func (e *Engine) leadingZeros(x *smt.Term, w int) *smt.Term {
	c := e.C
	// ite chain from the top bit down
	res := c.BVLit64(int64(w), 64)
	for i := 0; i < w; i++ {
		bit := c.Op(fmt.Sprintf("(_ extract %d %d)", i, i), smt.BV(1), x)
		res = c.Ite(c.Eq(bit, c.BVLit64(1, 1)), c.BVLit64(int64(w-1-i), 64), res)
	}
	return res
}

func (e *Engine) byteOrderGet(st *State, b Val, w int, little bool, rt types.Type, pos string) Val {
	c := e.C
	n := w / 8
	e.oblige(st, "index", "", bvle(c, c.BVLit64(int64(n), 64), b.Terms[2]), pos, fmt.Sprintf("ByteOrder.Uint%d needs %d bytes", w, n))
	arr := e.heapArr(st, elemName(types.Typ[types.Uint8], 0), smt.Array(smt.Int, bytesInner))
	inner := c.Select(arr, b.Terms[0])
	var bs []*smt.Term
	for i := 0; i < n; i++ {
		bs = append(bs, c.Select(inner, bvadd(c, b.Terms[1], c.BVLit64(int64(i), 64))))
	}
	return Val{Typ: rt, Terms: []*smt.Term{fromBytes(c, bs, little)}}
}

func (e *Engine) byteOrderPut(f *frame, st *State, b Val, v Val, w int, little bool, rt types.Type, pos string) Val {
	c := e.C
	n := w / 8
	e.oblige(st, "index", "", bvle(c, c.BVLit64(int64(n), 64), b.Terms[2]), pos, fmt.Sprintf("ByteOrder.PutUint%d needs %d bytes", w, n))
	e.frameCheckRef(f, st, b.Terms[0], "elem:uint8", pos)
	name := elemName(types.Typ[types.Uint8], 0)
	arr := e.heapArr(st, name, smt.Array(smt.Int, bytesInner))
	inner := c.Select(arr, b.Terms[0])
	for i, by := range beBytes(c, v.Terms[0], little) {
		inner = c.Store(inner, bvadd(c, b.Terms[1], c.BVLit64(int64(i), 64)), by)
	}
	st.Heap[name] = c.Store(arr, b.Terms[0], inner)
	return Val{Typ: rt}
}

func fixedSize(t types.Type) (int, bool) {
	if b, ok := types.Unalias(t).Underlying().(*types.Basic); ok {
		switch b.Kind() {
		case types.Int8, types.Uint8, types.Bool:
			return 1, true
		case types.Int16, types.Uint16:
			return 2, true
		case types.Int32, types.Uint32, types.Float32:
			return 4, true
		case types.Int64, types.Uint64, types.Float64:
			return 8, true
		}
	}
	return 0, false
}

func modelBinaryRead(e *Engine, f *frame, st *State, args []Val, rt types.Type, pos string) Val {
	c := e.C
	r, order, data := args[0], args[1], args[2]
	e.oblige(st, "nil", "", c.Not(c.Eq(r.Terms[0], c.IntLit(0))), pos, "binary.Read from nil reader")
	if data.Known == nil || !isPointer(data.Known.Typ) {
		panic(reject("binary.Read into statically unknown destination"))
	}
	p := *data.Known
	el := types.Unalias(p.Typ).Underlying().(*types.Pointer).Elem()
	n, ok := fixedSize(el)
	if !ok {
		panic(reject("binary.Read into " + el.String()))
	}
	little := isLittle(order)
	key := streamKey(r)
	okc, start, errv := e.readN(st, r, key, c.BVLit64(int64(n), 64), "binread")
	inner := e.ghostGet(st, pData, key)
	var bs []*smt.Term
	for i := 0; i < n; i++ {
		bs = append(bs, c.Select(inner, bvadd(c, start, c.BVLit64(int64(i), 64))))
	}
	raw := fromBytes(c, bs, little)
	old := e.load(st, p, el)
	var nv *smt.Term
	switch {
	case isBool(el):
		nv = c.Not(c.Eq(raw, c.BVLit64(0, 8)))
	case isFloat(el):
		if n == 4 {
			nv = c.Op("(_ to_fp 8 24)", smt.F32, raw)
		} else {
			nv = c.Op("(_ to_fp 11 53)", smt.F64, raw)
		}
	default:
		nv = raw
	}
	e.frameCheck(f, st, p, pos)
	e.store(st, p, Val{Typ: el, Terms: []*smt.Term{c.Ite(okc, nv, old.Terms[0])}})
	return errv
}

func modelBinaryWrite(e *Engine, f *frame, st *State, args []Val, rt types.Type, pos string) Val {
	c := e.C
	w, order, data := args[0], args[1], args[2]
	e.oblige(st, "nil", "", c.Not(c.Eq(w.Terms[0], c.IntLit(0))), pos, "binary.Write to nil writer")
	if data.Known == nil {
		panic(reject("binary.Write of statically unknown value"))
	}
	v := *data.Known
	key := streamKey(w)
	cnt := e.writerCount(st, key)
	errv, okc := e.maybeError(st, rt, "binwrite")
	if w.Known != nil && strings.HasSuffix(typeStr(w.Known.Typ), "bytes.Buffer") {
		// writes to a bytes.Buffer cannot fail
		e.assume(st, okc)
	}
	e.inMemoryDest(st, w, okc)
	adv := c.Fresh("binwrite.adv", smt.BV(64))
	var size *smt.Term
	if n, ok := fixedSize(v.Typ); ok {
		size = c.BVLit64(int64(n), 64)
		little := isLittle(order)
		var raw *smt.Term
		switch {
		case isBool(v.Typ):
			raw = c.Ite(v.Terms[0], c.BVLit64(1, 8), c.BVLit64(0, 8))
		case isFloat(v.Typ):
			raw = e.floatBits(st, v.Terms[0], n*8, types.Typ[types.Uint64]).Terms[0]
		default:
			raw = v.Terms[0]
		}
		wd := e.ghostGet(st, gWData, key)
		for i, by := range beBytes(c, raw, little) {
			wd = c.Store(wd, bvadd(c, cnt, c.BVLit64(int64(i), 64)), by)
		}
		e.ghostSet(st, gWData, key, wd)
	} else if sl, ok := types.Unalias(v.Typ).Underlying().(*types.Slice); ok && isInteger(sl.Elem()) && bitWidth(sl.Elem()) == 8 {
		size = v.Terms[2]
		arr := e.heapArr(st, elemName(types.Typ[types.Uint8], 0), smt.Array(smt.Int, bytesInner))
		e.ghostSet(st, gWData, key, c.App("arr.splice."+sortTag(smt.BV(8)), bytesInner, e.ghostGet(st, gWData, key), cnt, c.Select(arr, v.Terms[0]), v.Terms[1], size))
	} else {
		panic(reject("binary.Write of " + v.Typ.String()))
	}
	e.assume(st, c.And(bvle(c, c.BVLit64(0, 64), adv), bvle(c, adv, size), c.Implies(okc, c.Eq(adv, size))))
	e.ghostSet(st, gCount, key, bvadd(c, cnt, adv))
	return errv
}

func modelReadFull(e *Engine, f *frame, st *State, args []Val, rt types.Type, pos string) Val {
	c := e.C
	r, buf := args[0], args[1]
	e.oblige(st, "nil", "", c.Not(c.Eq(r.Terms[0], c.IntLit(0))), pos, "io.ReadFull from nil reader")
	key := streamKey(r)
	pos0, avail := e.readerState(st, key)
	errv, okc := e.maybeError(st, errorType(), "readfull")
	e.inMemorySource(st, r, key, pos0, buf.Terms[2], okc)
	part := c.Fresh("readfull.n", smt.BV(64))
	// success: exactly len(buf) bytes; failure: fewer
	n := c.Ite(okc, buf.Terms[2], part)
	e.assume(st, c.And(bvle(c, c.BVLit64(0, 64), part), c.Op("bvslt", smt.Bool, part, buf.Terms[2]), bvle(c, bvadd(c, pos0, n), avail)))
	e.ghostSet(st, gPos, key, bvadd(c, pos0, n))
	e.frameCheckRef(f, st, buf.Terms[0], "elem:uint8", pos)
	name := elemName(types.Typ[types.Uint8], 0)
	arr := e.heapArr(st, name, smt.Array(smt.Int, bytesInner))
	spl := func(k *smt.Term) *smt.Term {
		return c.App("arr.splice."+sortTag(smt.BV(8)), bytesInner, c.Select(arr, buf.Terms[0]), buf.Terms[1], e.ghostGet(st, pData, key), pos0, k)
	}
	st.Heap[name] = c.Store(arr, buf.Terms[0], c.Ite(okc, spl(buf.Terms[2]), spl(part)))
	return Val{Typ: rt, Terms: []*smt.Term{n, errv.Terms[0], errv.Terms[1]}}
}

func modelReaderRead(e *Engine, f *frame, st *State, recv Val, args []Val, rt types.Type, pos string) Val {
	c := e.C
	buf := args[0]
	key := streamKey(recv)
	pos0, avail := e.readerState(st, key)
	errv, _ := e.maybeError(st, errorType(), "read")
	n := c.Fresh("read.n", smt.BV(64))
	e.assume(st, c.And(bvle(c, c.BVLit64(0, 64), n), bvle(c, n, buf.Terms[2]), bvle(c, bvadd(c, pos0, n), avail)))
	e.ghostSet(st, gPos, key, bvadd(c, pos0, n))
	e.frameCheckRef(f, st, buf.Terms[0], "elem:uint8", pos)
	name := elemName(types.Typ[types.Uint8], 0)
	arr := e.heapArr(st, name, smt.Array(smt.Int, bytesInner))
	st.Heap[name] = c.Store(arr, buf.Terms[0], c.App("arr.splice."+sortTag(smt.BV(8)), bytesInner, c.Select(arr, buf.Terms[0]), buf.Terms[1], e.ghostGet(st, pData, key), pos0, n))
	return Val{Typ: rt, Terms: []*smt.Term{n, errv.Terms[0], errv.Terms[1]}}
}

func modelWriterWrite(e *Engine, f *frame, st *State, recv Val, args []Val, rt types.Type, pos string) Val {
	c := e.C
	p := args[0]
	key := streamKey(recv)
	cnt := e.writerCount(st, key)
	errv, okc := e.maybeError(st, errorType(), "write")
	e.inMemoryDest(st, recv, okc)
	n := c.Fresh("write.n", smt.BV(64))
	e.assume(st, c.And(bvle(c, c.BVLit64(0, 64), n), bvle(c, n, p.Terms[2]), c.Implies(okc, c.Eq(n, p.Terms[2]))))
	arr := e.heapArr(st, elemName(types.Typ[types.Uint8], 0), smt.Array(smt.Int, bytesInner))
	e.ghostSet(st, gWData, key, c.App("arr.splice."+sortTag(smt.BV(8)), bytesInner, e.ghostGet(st, gWData, key), cnt, c.Select(arr, p.Terms[0]), p.Terms[1], n))
	e.ghostSet(st, gCount, key, bvadd(c, cnt, n))
	e.syncBuffer(st, key, recv.Terms[0])
	return Val{Typ: rt, Terms: []*smt.Term{n, errv.Terms[0], errv.Terms[1]}}
}

func modelCopyN(e *Engine, f *frame, st *State, args []Val, rt types.Type, pos string) Val {
	c := e.C
	dst, src, n := args[0], args[1], args[2].Terms[0]
	e.oblige(st, "nil", "", c.Not(c.Eq(src.Terms[0], c.IntLit(0))), pos, "io.CopyN from nil reader")
	rkey, wkey := streamKey(src), streamKey(dst)
	pos0, avail := e.readerState(st, rkey)
	cnt := e.writerCount(st, wkey)
	errv, okc := e.maybeError(st, errorType(), "copyn")
	k := c.Fresh("copyn.k", smt.BV(64))
	z := c.BVLit64(0, 64)
	nn := c.Ite(bvle(c, n, z), z, n)
	// read side may consume more than it manages to write only on a write error; bounded by n either way
	e.assume(st, c.And(bvle(c, z, k), bvle(c, k, nn), bvle(c, bvadd(c, pos0, k), avail), c.Eq(okc, c.Eq(k, nn))))
	e.ghostSet(st, gPos, rkey, bvadd(c, pos0, k))
	e.ghostSet(st, gWData, wkey, c.App("arr.splice."+sortTag(smt.BV(8)), bytesInner, e.ghostGet(st, gWData, wkey), cnt, e.ghostGet(st, pData, rkey), pos0, k))
	e.ghostSet(st, gCount, wkey, bvadd(c, cnt, k))
	return Val{Typ: rt, Terms: []*smt.Term{k, errv.Terms[0], errv.Terms[1]}}
}

func modelNewBuffer(e *Engine, f *frame, st *State, args []Val, rt types.Type, pos string) Val {
	c := e.C
	b := args[0]
	ref := e.newRef(st)
	arr := e.heapArr(st, elemName(types.Typ[types.Uint8], 0), smt.Array(smt.Int, bytesInner))
	win := e.window(c.Select(arr, b.Terms[0]), b.Terms[1], b.Terms[2])
	e.ghostSet(st, gCount, ref, b.Terms[2])
	e.ghostSet(st, gPos, ref, c.BVLit64(0, 64))
	e.ghostSet(st, gWData, ref, win)
	e.ghostSet(st, pData, ref, win)
	e.ghostSet(st, pAvail, ref, b.Terms[2])
	if e.Share != nil && e.quiet == 0 {
		// the buffer takes ownership of the slice: later writes to the buffer land in its backing array
		e.oblige(st, "share", "", c.Or(c.Eq(b.Terms[0], c.IntLit(0)), c.Op(">=", smt.Bool, b.Terms[0], e.Share.alloc0), e.own(b.Terms[0])), pos,
			"bytes.NewBuffer takes ownership of its argument (writes to the buffer land in the slice's backing array): it is fresh or caller-owned")
	}
	e.note("bytes.NewBuffer: buffer is modelled as owning a copy of the initial bytes")
	v := Val{Typ: rt, Terms: []*smt.Term{ref}}
	e.wrapPtr(&v)
	return v
}

func modelNewReader(e *Engine, f *frame, st *State, args []Val, rt types.Type, pos string) Val {
	c := e.C
	b := args[0]
	ref := e.newRef(st)
	arr := e.heapArr(st, elemName(types.Typ[types.Uint8], 0), smt.Array(smt.Int, bytesInner))
	win := e.window(c.Select(arr, b.Terms[0]), b.Terms[1], b.Terms[2])
	e.ghostSet(st, gPos, ref, c.BVLit64(0, 64))
	e.ghostSet(st, pData, ref, win)
	e.ghostSet(st, pAvail, ref, b.Terms[2])
	v := Val{Typ: rt, Terms: []*smt.Term{ref}}
	e.wrapPtr(&v)
	return v
}

// window is the view of a byte array starting at off (length n): identical to the array when off is 0 (bytes beyond
// n are never legitimately read), otherwise an uninterpreted shift.
func (e *Engine) window(inner, off, n *smt.Term) *smt.Term {
	if v, ok := off.BVValue(); ok && v.Sign() == 0 {
		return inner
	}
	return e.C.App("arr.window."+sortTag(smt.BV(8)), bytesInner, inner, off, n)
}

// canonWindow names the byte string inner[off, off+n) so that equal byte strings obtained in the usual ways get the
// same term: reading back exactly the region that was spliced in yields the source's window.
func (e *Engine) canonWindow(inner, off, n *smt.Term) *smt.Term {
	c := e.C
	if inner.Op == "ite" && len(inner.Args) == 3 {
		return c.Ite(inner.Args[0], e.canonWindow(inner.Args[1], off, n), e.canonWindow(inner.Args[2], off, n))
	}
	for strings.HasPrefix(inner.Op, "arr.splice.") && len(inner.Args) == 5 {
		// splice(a, o, s, so, m): region [o, o+m) of the result is s[so, so+m)
		if inner.Args[1] == off && inner.Args[4] == n {
			inner, off = inner.Args[2], inner.Args[3]
			continue
		}
		break
	}
	if strings.HasPrefix(inner.Op, "arr.window.") && len(inner.Args) == 3 {
		if v, ok := off.BVValue(); ok && v.Sign() == 0 && inner.Args[2] == n {
			inner, off = inner.Args[0], inner.Args[1]
		}
	}
	return c.App("bytes.win", bytesInner, inner, off, n)
}

// syncBuffer keeps the reader view (avail, data) of a *bytes.Buffer equal to what has been written to it; tag is the
// dynamic type tag when the writer is only known as an interface (nil: statically a *bytes.Buffer).
func (e *Engine) syncBuffer(st *State, key, tag *smt.Term) {
	c := e.C
	cnt := c.Select(e.ghost(st, gCount), key)
	wd := c.Select(e.ghost(st, gWData), key)
	if tag == nil {
		st.Heap[pAvail] = c.Store(e.ghost(st, pAvail), key, cnt)
		st.Heap[pData] = c.Store(e.ghost(st, pData), key, wd)
		return
	}
	isBuf := c.Eq(tag, c.IntLit(int64(e.typeTag(bufferPtrType(e)))))
	st.Heap[pAvail] = c.Store(e.ghost(st, pAvail), key, c.Ite(isBuf, cnt, c.Select(e.ghost(st, pAvail), key)))
	st.Heap[pData] = c.Store(e.ghost(st, pData), key, c.Ite(isBuf, wd, c.Select(e.ghost(st, pData), key)))
}

func bufferPtrType(e *Engine) types.Type { return bytesPtrType(e, "Buffer") }

func bytesPtrType(e *Engine, name string) types.Type {
	for _, p := range e.W.Prog.AllPackages() {
		if p.Pkg.Path() == "bytes" {
			return types.NewPointer(p.Pkg.Scope().Lookup(name).Type())
		}
	}
	panic("package bytes not loaded")
}

// inMemoryDest: writes to a *bytes.Buffer cannot fail (it grows, or panics with ErrTooLarge beyond the size bound).
func (e *Engine) inMemoryDest(st *State, w Val, ok *smt.Term) {
	c := e.C
	if isInterface(w.Typ) {
		isMem := c.Or(c.Eq(w.Terms[0], c.IntLit(int64(e.typeTag(bytesPtrType(e, "Buffer"))))), c.Eq(w.Terms[0], c.IntLit(int64(e.typeTag(bytesPtrType(e, "Reader"))))))
		e.assume(st, c.Implies(isMem, ok))
	} else if typeStr(w.Typ) == "*bytes.Buffer" {
		e.assume(st, ok)
	}
}

// inMemorySource: reading n bytes from a *bytes.Buffer or *bytes.Reader that holds at least n more bytes cannot fail
// (their documented behaviour); other readers may fail at any time.
func (e *Engine) inMemorySource(st *State, r Val, key, pos0, n, ok *smt.Term) {
	c := e.C
	var isMem *smt.Term
	if isInterface(r.Typ) {
		isMem = c.Or(c.Eq(r.Terms[0], c.IntLit(int64(e.typeTag(bytesPtrType(e, "Buffer"))))), c.Eq(r.Terms[0], c.IntLit(int64(e.typeTag(bytesPtrType(e, "Reader"))))))
	} else if ts := typeStr(r.Typ); ts == "*bytes.Buffer" || ts == "*bytes.Reader" {
		isMem = c.True()
	} else {
		return
	}
	avail := e.ghostGet(st, pAvail, key)
	e.assume(st, c.Implies(c.And(isMem, bvle(c, c.BVLit64(0, 64), n), bvle(c, bvadd(c, pos0, n), avail)), ok))
}

// io.LimitReader(r, n): a new reader that delivers at most n of r's remaining bytes. The wrapper is a fresh object with
// its own prophecy (a prefix of r's remaining bytes); how far r itself has been advanced when the wrapper is dropped is
// over-approximated at creation: by some k with 0 <= k <= min(max(n,0), remaining).
func modelLimitReader(e *Engine, f *frame, st *State, args []Val, rt types.Type, pos string) Val {
	c := e.C
	r, n := args[0], args[1].Terms[0]
	rkey := streamKey(r)
	pos0, avail := e.readerState(st, rkey)
	z := c.BVLit64(0, 64)
	a := c.Fresh("limit.avail", smt.BV(64))
	k := c.Fresh("limit.k", smt.BV(64))
	nn := c.Ite(bvle(c, n, z), z, n)
	e.assume(st, c.And(bvle(c, z, a), bvle(c, a, nn), bvle(c, bvadd(c, pos0, a), avail), bvle(c, z, k), bvle(c, k, a)))
	ref := e.newRef(st)
	e.quiet++
	e.ghostSet(st, pAvail, ref, a)
	e.ghostSet(st, gPos, ref, z)
	e.ghostSet(st, pData, ref, e.window(e.ghostGet(st, pData, rkey), pos0, a))
	e.quiet--
	e.ghostSet(st, gPos, rkey, bvadd(c, pos0, k))
	var lt types.Type
	for _, p := range e.W.Prog.AllPackages() {
		if p.Pkg.Path() == "io" {
			lt = types.NewPointer(p.Pkg.Scope().Lookup("LimitedReader").Type())
		}
	}
	e.note("io.LimitReader: the wrapper is a fresh reader over a prefix of the source; the source's own position is advanced by an unknown amount up to the limit when the wrapper is created (over-approximation)")
	return Val{Typ: rt, Terms: []*smt.Term{c.IntLit(int64(e.typeTag(lt))), ref}}
}
