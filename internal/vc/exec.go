package vc

import (
	"fmt"
	"go/constant"
	"go/token"
	"go/types"
	"math/big"

	"golang.org/x/tools/go/ssa"

	"verif/internal/smt"
)

type edge struct{ from, to *ssa.BasicBlock }

type loopInfo struct {
	header  *ssa.BasicBlock
	blocks  map[*ssa.BasicBlock]bool
	latches []*ssa.BasicBlock
	ordinal int
	mods    *modSet
	live    []ssa.Value
}

type frame struct {
	fn     *ssa.Function
	vals   map[ssa.Value]Val
	exit   map[*ssa.BasicBlock]*State // state at end of block
	econd  map[edge]*smt.Term         // edge condition (includes reach of source)
	loops  map[*ssa.BasicBlock]*loopInfo
	back   map[edge]bool
	depth  int
	rets   []retPoint
	top    bool
	entry  *State
	params []Val
	// loop header snapshots for inv-step evaluation
	headPhis map[*ssa.BasicBlock][]*ssa.Phi
	headEnv  map[*ssa.BasicBlock]*State
	parent   *frame
	// for contracts
	ct        *Contract
	engine    *Engine
	autos     map[*ssa.BasicBlock][]autoInv
	autoDec   map[*ssa.BasicBlock][]autoInv
	frameRule func(e *Engine, st *State, ref *smt.Term, kind string, pos string)
	order     []*ssa.BasicBlock
	incoming  map[*ssa.BasicBlock][]*inEdge
	nextIter  map[*ssa.BasicBlock][]*inEdge
	unrolling []*loopInfo // stack of loops currently being unrolled
	sig       *types.Signature
	pnames    []string // parameter names (receiver first), for contract expressions
}

// inEdge is one (possibly virtual, per unrolled iteration) control-flow edge arriving at a block.
type inEdge struct {
	from    *ssa.BasicBlock
	cond    *smt.Term
	st      *State
	phiVals []Val             // operands of the target's phis along this edge
	snap    map[ssa.Value]Val // live-out values of unrolled loops being left
}

type retPoint struct {
	cond *smt.Term
	vals []Val
	st   *State
}

// findLoops detects natural loops (back edge = edge to a dominator).
func findLoops(fn *ssa.Function) (map[*ssa.BasicBlock]*loopInfo, map[edge]bool) {
	loops := map[*ssa.BasicBlock]*loopInfo{}
	back := map[edge]bool{}
	for _, b := range fn.Blocks {
		for _, s := range b.Succs {
			if s.Dominates(b) {
				back[edge{b, s}] = true
				li := loops[s]
				if li == nil {
					li = &loopInfo{header: s, blocks: map[*ssa.BasicBlock]bool{s: true}}
					loops[s] = li
				}
				li.latches = append(li.latches, b)
				// collect body: nodes that reach b without passing through s
				var stack []*ssa.BasicBlock
				if !li.blocks[b] {
					li.blocks[b] = true
					stack = append(stack, b)
				}
				for len(stack) > 0 {
					x := stack[len(stack)-1]
					stack = stack[:len(stack)-1]
					for _, p := range x.Preds {
						if !li.blocks[p] {
							li.blocks[p] = true
							stack = append(stack, p)
						}
					}
				}
			}
		}
	}
	// ordinals by header block index
	n := 0
	for _, b := range fn.Blocks {
		if li, ok := loops[b]; ok {
			li.ordinal = n
			n++
		}
	}
	return loops, back
}

// topoOrder returns blocks in an order where every non-back-edge predecessor precedes its successor.
func topoOrder(fn *ssa.Function, back map[edge]bool) []*ssa.BasicBlock {
	indeg := map[*ssa.BasicBlock]int{}
	for _, b := range fn.Blocks {
		for _, s := range b.Succs {
			if !back[edge{b, s}] {
				indeg[s]++
			}
		}
	}
	var order, ready []*ssa.BasicBlock
	ready = append(ready, fn.Blocks[0])
	seen := map[*ssa.BasicBlock]bool{}
	for len(ready) > 0 {
		// pick lowest index for determinism
		bi := 0
		for i, b := range ready {
			if b.Index < ready[bi].Index {
				bi = i
			}
		}
		b := ready[bi]
		ready = append(ready[:bi], ready[bi+1:]...)
		if seen[b] {
			continue
		}
		seen[b] = true
		order = append(order, b)
		for _, s := range b.Succs {
			if back[edge{b, s}] {
				continue
			}
			indeg[s]--
			if indeg[s] == 0 {
				ready = append(ready, s)
			}
		}
	}
	return order
}

const maxInlineDepth = 6

// execFunc symbolically executes fn from state st with the given arguments.
// It returns the merged return values and exit state. For the top frame, ct carries loop invariants.
func (e *Engine) execFunc(fn *ssa.Function, args []Val, binds []Val, st *State, parent *frame, ct *Contract) ([]Val, *State, *frame) {
	if fn.Blocks == nil {
		panic(reject("no body for " + fn.String()))
	}
	f := &frame{engine: e, fn: fn, vals: map[ssa.Value]Val{}, exit: map[*ssa.BasicBlock]*State{}, econd: map[edge]*smt.Term{}, parent: parent, ct: ct,
		headEnv: map[*ssa.BasicBlock]*State{}}
	if parent != nil {
		f.depth = parent.depth + 1
	} else {
		f.top = true
		f.frameRule = e.topFrameRule
	}
	if fn.Recover != nil && !onlyMutexDefers(fn) {
		panic(reject("function with recover"))
	}
	f.loops, f.back = findLoops(fn)
	for i, p := range fn.Params {
		v := args[i]
		v.Typ = p.Type()
		f.vals[p] = v
	}
	for i, fv := range fn.FreeVars {
		f.vals[fv] = binds[i]
	}
	f.params = args
	f.setSig(fn)
	f.entry = st.clone()
	prevFrame := e.curFrame
	e.curFrame = f
	defer func() { e.curFrame = prevFrame }()
	f.order = topoOrder(fn, f.back)
	f.incoming = map[*ssa.BasicBlock][]*inEdge{}
	f.nextIter = map[*ssa.BasicBlock][]*inEdge{}
	f.incoming[fn.Blocks[0]] = []*inEdge{{cond: st.Reach, st: st.clone()}}
	e.runBlocks(f, f.order, nil)
	// merge returns
	if len(f.rets) == 0 {
		// function never returns normally (always panics)
		dead := st.clone()
		dead.Reach = e.C.False()
		var zs []Val
		res := fn.Signature.Results()
		for i := 0; i < res.Len(); i++ {
			zs = append(zs, e.zero(res.At(i).Type()))
		}
		return zs, dead, f
	}
	var conds []*smt.Term
	var states []*State
	for _, r := range f.rets {
		conds = append(conds, r.cond)
		states = append(states, r.st)
	}
	exit := e.merge(conds, states)
	var outs []Val
	for i := range f.rets[0].vals {
		var vs []Val
		for _, r := range f.rets {
			vs = append(vs, r.vals[i])
		}
		outs = append(outs, e.mergeVals(conds, vs))
	}
	return outs, exit, f
}

func (e *Engine) retag(v Val, t types.Type) Val {
	v.Typ = t
	return v
}

// get returns the symbolic value of an SSA value.
func (f *frame) get(v ssa.Value) Val {
	if x, ok := f.vals[v]; ok {
		return x
	}
	e := f.eng()
	switch c := v.(type) {
	case *ssa.Const:
		return e.constVal(c)
	case *ssa.Global:
		return e.globalAddr(c)
	case *ssa.Function:
		return Val{Typ: c.Type(), Terms: []*smt.Term{e.C.IntLit(int64(1000000 + e.typeTag(types.NewNamed(types.NewTypeName(token.NoPos, nil, "fn:"+c.String(), nil), types.Typ[types.Int], nil))))}, Fn: c}
	case *ssa.Builtin:
		return Val{Typ: c.Type()}
	}
	panic(fmt.Sprintf("no value for %s (%T) in %s", v.Name(), v, f.fn))
}

func (f *frame) eng() *Engine { return f.engine }

func (e *Engine) constVal(c *ssa.Const) Val {
	t := c.Type()
	if c.Value == nil {
		return e.zero(t)
	}
	v := Val{Typ: t}
	switch u := types.Unalias(t).Underlying().(type) {
	case *types.Basic:
		switch {
		case u.Info()&types.IsBoolean != 0:
			v.Terms = []*smt.Term{e.C.BoolLit(constant.BoolVal(c.Value))}
		case u.Info()&types.IsInteger != 0:
			bi, ok := constant.Val(constant.ToInt(c.Value)).(*big.Int)
			if !ok {
				i64, _ := constant.Int64Val(constant.ToInt(c.Value))
				bi = big.NewInt(i64)
			}
			v.Terms = []*smt.Term{e.C.BVLit(bi, bitWidth(t))}
		case u.Info()&types.IsString != 0:
			v.Terms = []*smt.Term{e.strLit(constant.StringVal(c.Value))}
		case u.Info()&types.IsFloat != 0:
			f64, _ := constant.Float64Val(c.Value)
			v.Terms = []*smt.Term{e.floatLit(f64, bitWidth64(t))}
		default:
			panic(reject("unsupported constant type " + t.String()))
		}
	default:
		panic(reject("unsupported constant type " + t.String()))
	}
	return v
}

func bitWidth64(t types.Type) int {
	if b, ok := types.Unalias(t).Underlying().(*types.Basic); ok && b.Kind() == types.Float32 {
		return 32
	}
	return 64
}

// globalAddr returns a pointer to the cell of a package-level variable.
func (e *Engine) globalAddr(g *ssa.Global) Val {
	elem := g.Type().(*types.Pointer).Elem()
	id := e.globalRef(g)
	return Val{Typ: g.Type(), Terms: []*smt.Term{id}, Ptr: e.wholePtr(elem), Glob: g}
}

// globalRef gives each global a distinct, pre-allocated reference (negative numbers are never allocated).
func (e *Engine) globalRef(g *ssa.Global) *smt.Term {
	k := "global:" + g.String()
	id := e.typeTag(types.NewNamed(types.NewTypeName(token.NoPos, nil, k, nil), types.Typ[types.Int], nil))
	return e.C.IntLit(int64(-id))
}

func (e *Engine) execBlock(f *frame, b *ssa.BasicBlock, st *State) {
	for _, in := range b.Instrs {
		if _, ok := in.(*ssa.Phi); ok {
			continue
		}
		e.execInstr(f, b, in, st)
	}
	f.exit[b] = st
}

func (e *Engine) execInstr(f *frame, b *ssa.BasicBlock, in ssa.Instruction, st *State) {
	c := e.C
	pos := posOf(e.W.Prog, in)
	switch x := in.(type) {
	case *ssa.DebugRef:
	case *ssa.Alloc:
		f.vals[x] = e.retag(e.allocCell(st, x.Type().(*types.Pointer).Elem()), x.Type())
	case *ssa.BinOp:
		f.vals[x] = e.binop(f, st, x, pos)
	case *ssa.UnOp:
		f.vals[x] = e.unop(f, st, x, pos)
	case *ssa.Phi:
	case *ssa.ChangeInterface:
		f.vals[x] = e.retag(f.get(x.X), x.Type())
	case *ssa.ChangeType:
		v := f.get(x.X)
		nv := Val{Typ: x.Type(), Terms: v.Terms, Fn: v.Fn, Binds: v.Binds}
		if isPointer(x.Type()) {
			if v.Ptr != nil && !v.Ptr.whole(e) {
				panic(reject("ChangeType of interior pointer"))
			}
			e.wrapPtr(&nv)
		}
		f.vals[x] = nv
	case *ssa.Convert:
		f.vals[x] = e.convert(st, f.get(x.X), x.X.Type(), x.Type(), pos)
	case *ssa.MultiConvert:
		panic(reject("MultiConvert"))
	case *ssa.Extract:
		tv := f.get(x.Tuple)
		off, n := e.tupleRange(x.Tuple.Type().(*types.Tuple), x.Index)
		v := Val{Typ: x.Type(), Terms: tv.Terms[off : off+n]}
		e.wrapPtr(&v)
		if _, isTA := x.Tuple.(*ssa.TypeAssert); isTA && x.Index == 0 && tv.Known != nil && isInterface(x.Type()) {
			v.Known = tv.Known
		}
		f.vals[x] = v
	case *ssa.Field:
		sv := f.get(x.X)
		off, n := e.fieldRange(x.X.Type(), x.Field)
		v := Val{Typ: x.Type(), Terms: sv.Terms[off : off+n]}
		e.wrapPtr(&v)
		f.vals[x] = v
	case *ssa.FieldAddr:
		p := f.get(x.X)
		e.nilCheck(st, p, pos, "field address of nil pointer")
		if p.Ptr == nil {
			panic(reject("FieldAddr on pointer without info"))
		}
		st0 := types.Unalias(x.X.Type()).Underlying().(*types.Pointer).Elem()
		off, n := e.fieldRange(st0, x.Field)
		np := *p.Ptr
		np.Off += off
		np.N = n
		f.vals[x] = Val{Typ: x.Type(), Terms: p.Terms, Ptr: &np}
	case *ssa.Index:
		av := f.get(x.X)
		idx := e.toIndex(f.get(x.Index), x.Index.Type())
		switch u := types.Unalias(x.X.Type()).Underlying().(type) {
		case *types.Array:
			e.oblige(st, "index", "", e.inBounds(idx, c.BVLit64(u.Len(), 64)), pos, "array index in range")
			v := Val{Typ: x.Type()}
			for _, a := range av.Terms {
				v.Terms = append(v.Terms, c.Select(a, idx))
			}
			e.wrapPtr(&v)
			f.vals[x] = v
		default:
			panic(reject("Index on " + x.X.Type().String()))
		}
	case *ssa.IndexAddr:
		f.vals[x] = e.indexAddr(f, st, x, pos)
	case *ssa.If:
		cond := f.get(x.Cond).Terms[0]
		e.pushEdge(f, b, b.Succs[0], c.And(st.Reach, cond), st)
		e.pushEdge(f, b, b.Succs[1], c.And(st.Reach, c.Not(cond)), st)
	case *ssa.Jump:
		e.pushEdge(f, b, b.Succs[0], st.Reach, st)
	case *ssa.Return:
		var vs []Val
		res := f.fn.Signature.Results()
		for i, r := range x.Results {
			vs = append(vs, e.retag(f.get(r), res.At(i).Type()))
		}
		f.rets = append(f.rets, retPoint{cond: st.Reach, vals: vs, st: st.clone()})
	case *ssa.Panic:
		e.oblige(st, "panic", "", c.False(), pos, "explicit panic reachable")
		// execution stops: nothing recorded
	case *ssa.Lookup:
		f.vals[x] = e.lookup(f, st, x, pos)
	case *ssa.MakeInterface:
		f.vals[x] = e.makeInterface(st, f.get(x.X), x.X.Type(), x.Type())
	case *ssa.MakeMap:
		ref := e.newRef(st)
		v := Val{Typ: x.Type(), Terms: []*smt.Term{ref}}
		e.mapInit(st, x.Type(), ref)
		f.vals[x] = v
	case *ssa.MakeSlice:
		f.vals[x] = e.makeSlice(f, st, x, pos)
	case *ssa.MakeClosure:
		fn := x.Fn.(*ssa.Function)
		var binds []Val
		for _, bv := range x.Bindings {
			binds = append(binds, f.get(bv))
		}
		ref := e.newRef(st)
		f.vals[x] = Val{Typ: x.Type(), Terms: []*smt.Term{ref}, Fn: fn, Binds: binds}
		if e.Share != nil {
			// what the closure may write through its captured variables must be writable here
			e.shareBinds(st, fn, binds, pos)
		}
	case *ssa.MapUpdate:
		e.mapUpdate(f, st, x, pos)
	case *ssa.Range:
		f.vals[x] = e.rangeInit(f, st, x)
	case *ssa.Next:
		f.vals[x] = e.rangeNext(f, st, x)
	case *ssa.Slice:
		f.vals[x] = e.sliceOp(f, st, x, pos)
	case *ssa.SliceToArrayPointer:
		panic(reject("SliceToArrayPointer"))
	case *ssa.Store:
		p := f.get(x.Addr)
		e.nilCheck(st, p, pos, "store through nil pointer")
		v := f.get(x.Val)
		if isPointer(x.Val.Type()) && v.Ptr != nil && !v.Ptr.whole(e) {
			panic(reject("interior pointer stored to memory"))
		}
		e.frameCheck(f, st, p, pos)
		if !privateCell(x.Addr) {
			e.ownStore(st, p.Terms[0], Val{Typ: x.Val.Type(), Terms: v.Terms}, pos, "store")
		}
		e.store(st, p, v)
		if ld, ok := x.Val.(*ssa.UnOp); ok && ld.Op == token.MUL && p.Ptr != nil && p.Ptr.whole(e) && typeStr(p.Ptr.Root) == "math/big.Int" {
			// *d = *q for big.Int: the destination now denotes q's value
			e.bigSet(st, p.Terms[0], e.bigVal(st, f.get(ld.X).Terms[0]))
		}
	case *ssa.TypeAssert:
		f.vals[x] = e.typeAssert(f, st, x, pos)
	case *ssa.Call:
		f.vals[x] = e.call(f, st, x, &x.Call, pos)
	case *ssa.RunDefers:
		// defers are rejected at the Defer instruction unless modelled as no-ops
	case *ssa.Defer:
		if isMutexCall(&x.Call) {
			e.note("sync.Mutex/RWMutex operations are no-ops (sequential semantics)")
			return
		}
		panic(reject("defer"))
	case *ssa.Go:
		if e.AbstractConc {
			e.note("go statements are ignored (the started goroutine's effects are not modelled)")
			return
		}
		panic(reject("go statement"))
	case *ssa.Select:
		if e.AbstractConc {
			if v, ok := e.execSelect(f, st, x, pos); ok {
				f.vals[x] = v
				return
			}
		}
		panic(reject("select"))
	case *ssa.Send:
		if e.AbstractConc && e.execSend(f, st, x, pos) {
			return
		}
		panic(reject("channel send"))
	case *ssa.MakeChan:
		if e.AbstractConc {
			if v, ok := e.makeChan(st, x, f.get(x.Size)); ok {
				f.vals[x] = v
				return
			}
			ref := e.newRef(st)
			f.vals[x] = Val{Typ: x.Type(), Terms: []*smt.Term{ref}}
			return
		}
		panic(reject("make chan"))
	default:
		panic(reject(fmt.Sprintf("unsupported instruction %T", in)))
	}
}

func isMutexCall(c *ssa.CallCommon) bool {
	if fn := c.StaticCallee(); fn != nil {
		s := fn.String()
		switch s {
		case "(*sync.Mutex).Lock", "(*sync.Mutex).Unlock", "(*sync.RWMutex).Lock", "(*sync.RWMutex).Unlock", "(*sync.RWMutex).RLock", "(*sync.RWMutex).RUnlock":
			return true
		}
	}
	return false
}

func (e *Engine) nilCheck(st *State, p Val, pos, what string) {
	if len(p.Terms) == 0 {
		return
	}
	if p.Ptr != nil && (p.Ptr.Off != 0 || p.Ptr.IsElem) {
		return // derived from a checked base
	}
	e.oblige(st, "nil", "", e.C.Not(e.C.Eq(p.Terms[0], e.C.IntLit(0))), pos, what)
}

func (e *Engine) inBounds(idx, n *smt.Term) *smt.Term {
	return e.C.And(e.C.Op("bvsle", smt.Bool, e.C.BVLit64(0, 64), idx), e.C.Op("bvslt", smt.Bool, idx, n))
}

// toIndex widens an index value to 64-bit signed (Go converts index operands to int).
func (e *Engine) toIndex(v Val, t types.Type) *smt.Term {
	return e.C.Extend(v.Terms[0], 64, isSigned(t))
}

func (e *Engine) indexAddr(f *frame, st *State, x *ssa.IndexAddr, pos string) Val {
	base := f.get(x.X)
	idx := e.toIndex(f.get(x.Index), x.Index.Type())
	switch u := types.Unalias(x.X.Type()).Underlying().(type) {
	case *types.Slice:
		e.oblige(st, "index", "", e.inBounds(idx, base.Terms[2]), pos, "slice index in range")
		el := u.Elem()
		return Val{Typ: x.Type(), Terms: []*smt.Term{base.Terms[0]},
			Ptr: &PtrInfo{Root: el, IsElem: true, Elem: e.C.Op("bvadd", smt.BV(64), base.Terms[1], idx), Off: 0, N: len(e.comps(el))}}
	case *types.Pointer:
		at := types.Unalias(u.Elem()).Underlying().(*types.Array)
		e.nilCheck(st, base, pos, "index of nil array pointer")
		if base.Ptr != nil && (base.Ptr.IsElem || base.Ptr.Off != 0) {
			panic(reject("IndexAddr on interior array pointer"))
		}
		e.oblige(st, "index", "", e.inBounds(idx, e.C.BVLit64(at.Len(), 64)), pos, "array index in range")
		el := at.Elem()
		return Val{Typ: x.Type(), Terms: []*smt.Term{base.Terms[0]},
			Ptr: &PtrInfo{Root: el, IsElem: true, Elem: idx, Off: 0, N: len(e.comps(el))}}
	}
	panic(reject("IndexAddr on " + x.X.Type().String()))
}

func (e *Engine) makeSlice(f *frame, st *State, x *ssa.MakeSlice, pos string) Val {
	c := e.C
	ln := e.toIndex(f.get(x.Len), x.Len.Type())
	cp := e.toIndex(f.get(x.Cap), x.Cap.Type())
	z := c.BVLit64(0, 64)
	e.oblige(st, "alloc", "", c.And(c.Op("bvsle", smt.Bool, z, ln), c.Op("bvsle", smt.Bool, ln, cp)), pos, "make: 0 <= len <= cap")
	// memory is finite: a successful make returns less than 2^62 elements
	e.assume(st, c.Op("bvsle", smt.Bool, cp, c.BVLit64(sizeBound, 64)))
	el := types.Unalias(x.Type()).Underlying().(*types.Slice).Elem()
	ref := e.newRef(st)
	for k, s := range e.comps(el) {
		name := elemName(el, k)
		arr := e.heapArr(st, name, smt.Array(smt.Int, smt.Array(smt.BV(64), s)))
		st.Heap[name] = c.Store(arr, ref, e.zeroOf(smt.Array(smt.BV(64), s)))
	}
	return Val{Typ: x.Type(), Terms: []*smt.Term{ref, z, ln, cp}}
}

func (e *Engine) sliceOp(f *frame, st *State, x *ssa.Slice, pos string) Val {
	c := e.C
	base := f.get(x.X)
	z := c.BVLit64(0, 64)
	var lo, hi, max *smt.Term
	if x.Low != nil {
		lo = e.toIndex(f.get(x.Low), x.Low.Type())
	} else {
		lo = z
	}
	le := func(a, b *smt.Term) *smt.Term { return c.Op("bvsle", smt.Bool, a, b) }
	switch u := types.Unalias(x.X.Type()).Underlying().(type) {
	case *types.Slice:
		if x.High != nil {
			hi = e.toIndex(f.get(x.High), x.High.Type())
		} else {
			hi = base.Terms[2]
		}
		capT := base.Terms[3]
		if x.Max != nil {
			max = e.toIndex(f.get(x.Max), x.Max.Type())
			e.oblige(st, "index", "", c.And(le(z, lo), le(lo, hi), le(hi, max), le(max, capT)), pos, "slice bounds")
		} else {
			max = capT
			e.oblige(st, "index", "", c.And(le(z, lo), le(lo, hi), le(hi, capT)), pos, "slice bounds")
		}
		return Val{Typ: x.Type(), Terms: []*smt.Term{base.Terms[0], c.Op("bvadd", smt.BV(64), base.Terms[1], lo),
			c.Op("bvsub", smt.BV(64), hi, lo), c.Op("bvsub", smt.BV(64), max, lo)}}
	case *types.Pointer:
		at := types.Unalias(u.Elem()).Underlying().(*types.Array)
		n := c.BVLit64(at.Len(), 64)
		if base.Ptr != nil && (base.Ptr.IsElem || base.Ptr.Off != 0) {
			panic(reject("slice of interior array pointer"))
		}
		e.nilCheck(st, base, pos, "slice of nil array pointer")
		if x.High != nil {
			hi = e.toIndex(f.get(x.High), x.High.Type())
		} else {
			hi = n
		}
		max = n
		if x.Max != nil {
			max = e.toIndex(f.get(x.Max), x.Max.Type())
		}
		e.oblige(st, "index", "", c.And(le(z, lo), le(lo, hi), le(hi, max), le(max, n)), pos, "slice bounds")
		return Val{Typ: x.Type(), Terms: []*smt.Term{base.Terms[0], lo, c.Op("bvsub", smt.BV(64), hi, lo), c.Op("bvsub", smt.BV(64), max, lo)}}
	case *types.Basic: // string
		s := base.Terms[0]
		ln := e.strLen(s)
		if x.High != nil {
			hi = e.toIndex(f.get(x.High), x.High.Type())
		} else {
			hi = ln
		}
		e.oblige(st, "index", "", c.And(le(z, lo), le(lo, hi), le(hi, ln)), pos, "string slice bounds")
		r := c.App("gs.sub", smt.Str, s, lo, hi)
		e.assume(st, c.Eq(e.strLen(r), c.Op("bvsub", smt.BV(64), hi, lo)))
		return Val{Typ: x.Type(), Terms: []*smt.Term{r}}
	}
	panic(reject("Slice on " + x.X.Type().String()))
}

func (e *Engine) floatLit(v float64, w int) *smt.Term {
	if w == 32 {
		bits := uint64(float32bits(float32(v)))
		return e.C.Op("(_ to_fp 8 24)", smt.F32, e.C.BVLit(new(big.Int).SetUint64(bits), 32))
	}
	bits := float64bits(v)
	return e.C.Op("(_ to_fp 11 53)", smt.F64, e.C.BVLit(new(big.Int).SetUint64(bits), 64))
}

func blockPhis(b *ssa.BasicBlock) []*ssa.Phi {
	var phis []*ssa.Phi
	for _, in := range b.Instrs {
		phi, ok := in.(*ssa.Phi)
		if !ok {
			break
		}
		phis = append(phis, phi)
	}
	return phis
}

// pushEdge records control flow from block from to block to under cond.
func (e *Engine) pushEdge(f *frame, from, to *ssa.BasicBlock, cond *smt.Term, st *State) {
	ed := &inEdge{from: from, cond: cond, st: st}
	idx := -1
	for j, p := range to.Preds {
		if p == from {
			idx = j
		}
	}
	for _, phi := range blockPhis(to) {
		ed.phiVals = append(ed.phiVals, e.retag(f.get(phi.Edges[idx]), phi.Type()))
	}
	if f.back[edge{from, to}] {
		li := f.loops[to]
		if n := f.unrollCount(li); n > 0 {
			f.nextIter[to] = append(f.nextIter[to], ed)
			return
		}
		e.loopBackEdge(f, li, from, to, st, cond)
		return
	}
	// leaving unrolled loops: remember the values that are used after them
	for _, li := range f.unrolling {
		if !li.blocks[to] {
			if ed.snap == nil {
				ed.snap = map[ssa.Value]Val{}
			}
			for _, v := range li.liveOut() {
				if val, ok := f.vals[v]; ok {
					ed.snap[v] = val
				}
			}
		}
	}
	f.incoming[to] = append(f.incoming[to], ed)
}

func (f *frame) unrollCount(li *loopInfo) int {
	ct := f.ct
	if ct == nil {
		return 0
	}
	return ct.Unroll[li.ordinal]
}

// liveOut lists values defined inside the loop and used outside of it.
func (li *loopInfo) liveOut() []ssa.Value {
	if li.live != nil {
		return li.live
	}
	li.live = []ssa.Value{}
	for b := range li.blocks {
		for _, in := range b.Instrs {
			v, ok := in.(ssa.Value)
			if !ok || v.Referrers() == nil {
				continue
			}
			for _, r := range *v.Referrers() {
				if !li.blocks[r.Block()] {
					li.live = append(li.live, v)
					break
				}
			}
		}
	}
	return li.live
}

// runBlocks executes the given blocks (topologically ordered); skip marks blocks already handled by an unrolled loop.
func (e *Engine) runBlocks(f *frame, order []*ssa.BasicBlock, within *loopInfo) {
	done := map[*ssa.BasicBlock]bool{}
	for _, b := range order {
		if done[b] {
			continue
		}
		if li := f.loops[b]; li != nil && li != within && f.unrollCount(li) > 0 {
			e.runUnrolled(f, li, f.unrollCount(li))
			for x := range li.blocks {
				done[x] = true
			}
			continue
		}
		e.runBlock(f, b)
	}
}

func (e *Engine) runBlock(f *frame, b *ssa.BasicBlock) {
	in := f.incoming[b]
	f.incoming[b] = nil
	if len(in) == 0 {
		return
	}
	var conds []*smt.Term
	var states []*State
	for _, ed := range in {
		conds = append(conds, ed.cond)
		states = append(states, ed.st)
	}
	cur := e.merge(conds, states)
	phis := blockPhis(b)
	for k, phi := range phis {
		var vs []Val
		for _, ed := range in {
			vs = append(vs, ed.phiVals[k])
		}
		f.vals[phi] = e.mergeVals(conds, vs)
	}
	// values live out of unrolled loops that were just left
	snapVals := map[ssa.Value]bool{}
	for _, ed := range in {
		for v := range ed.snap {
			snapVals[v] = true
		}
	}
	for v := range snapVals {
		// the merged value is meaningful only for uses this block dominates (another exit block of the same loop
		// must not overwrite it)
		used := false
		if inst, ok := v.(ssa.Instruction); ok {
			_ = inst
		}
		if refs := v.Referrers(); refs != nil {
			for _, r := range *refs {
				if rb := r.Block(); rb == b || b.Dominates(rb) {
					used = true
				}
			}
		}
		if !used {
			continue
		}
		var vs []Val
		var cs []*smt.Term
		for _, ed := range in {
			if val, ok := ed.snap[v]; ok {
				vs = append(vs, val)
				cs = append(cs, ed.cond)
			}
		}
		if len(vs) > 0 {
			f.vals[v] = e.mergeVals(cs, vs)
		}
	}
	if li := f.loops[b]; li != nil && f.unrollCount(li) == 0 {
		e.loopHeader(f, li, b, phis, cur)
	}
	e.execBlock(f, b, cur)
}

// runUnrolled executes a loop with a constant trip count by unrolling it n times; the unwinding assertion
// (no further iteration is possible) is an obligation, so the unrolling is complete, not a bound.
func (e *Engine) runUnrolled(f *frame, li *loopInfo, n int) {
	var loopOrder []*ssa.BasicBlock
	for _, b := range f.order {
		if li.blocks[b] {
			loopOrder = append(loopOrder, b)
		}
	}
	f.unrolling = append(f.unrolling, li)
	defer func() { f.unrolling = f.unrolling[:len(f.unrolling)-1] }()
	h := li.header
	for iter := 0; ; iter++ {
		if len(f.incoming[h]) == 0 {
			break
		}
		if iter == n+1 { // n full iterations plus the final evaluation of the loop condition
			var conds []*smt.Term
			for _, ed := range f.incoming[h] {
				conds = append(conds, ed.cond)
			}
			st := f.incoming[h][0].st.clone()
			st.Reach = e.C.Or(conds...)
			e.oblige(st, "unwind", fmt.Sprintf("loop%d", li.ordinal), e.C.False(), posOfBlock(e, h), fmt.Sprintf("loop runs at most %d times (unrolled completely)", n))
			f.incoming[h] = nil
			break
		}
		f.nextIter[h] = nil
		e.runBlocks(f, loopOrder, li)
		f.incoming[h] = f.nextIter[h]
	}
}

// setSig records the parameter names and signature used to resolve names in contract expressions.
func (f *frame) setSig(fn *ssa.Function) {
	f.sig = fn.Signature
	f.pnames = nil
	for _, p := range fn.Params {
		f.pnames = append(f.pnames, p.Name())
	}
}

// setIfaceSig: a frame standing for an interface method (no body): the receiver is called "self".
func (f *frame) setIfaceSig(sig *types.Signature) {
	f.sig = sig
	f.pnames = []string{"self"}
	for i := 0; i < sig.Params().Len(); i++ {
		f.pnames = append(f.pnames, sig.Params().At(i).Name())
	}
}

// privateCell: addr is (a field of) a local variable cell whose address is only ever used to load from and store
// to it, so the cell cannot become part of any data structure.
func privateCell(addr ssa.Value) bool {
	for {
		switch a := addr.(type) {
		case *ssa.FieldAddr:
			addr = a.X
			continue
		case *ssa.Alloc:
			return onlyLoadStore(a, 0)
		}
		return false
	}
}

func onlyLoadStore(v ssa.Value, depth int) bool {
	if depth > 4 || v.Referrers() == nil {
		return false
	}
	for _, r := range *v.Referrers() {
		switch x := r.(type) {
		case *ssa.UnOp:
			// load
		case *ssa.Store:
			if x.Val == v {
				return false // the address itself is stored somewhere
			}
		case *ssa.FieldAddr:
			if !onlyLoadStore(x, depth+1) {
				return false
			}
		case *ssa.DebugRef:
		default:
			return false
		}
	}
	return true
}

// topEntry is the entry state of the function under verification.
func (f *frame) topEntry() *State { return topFrame(f).entry }

// onlyMutexDefers: every defer of fn is a sync.Mutex/RWMutex unlock (a no-op under sequential semantics), so the
// recover block go/ssa adds for deferring functions is unreachable in the model.
func onlyMutexDefers(fn *ssa.Function) bool {
	for _, b := range fn.Blocks {
		for _, in := range b.Instrs {
			if d, ok := in.(*ssa.Defer); ok && !isMutexCall(&d.Call) {
				return false
			}
		}
	}
	return true
}
