package vc

import (
	"fmt"
	"go/ast"
	"go/types"
	"math/big"
	"regexp"
	"strconv"
	"strings"
	"unicode"

	"golang.org/x/tools/go/packages"
)

// Contract is the parsed //@ block of one function (or of a family of functions matched by a pattern).
type Contract struct {
	Key         string // canonical function key, or pattern text
	Pkg         string // short package path the contract was written in
	Pattern     *regexp.Regexp
	Props       []string
	Requires    []*Clause
	Ensures     []*Clause
	Assumes     []*Clause // like ensures at call sites, but NOT checked against implementations: a stated assumption
	Invariants  map[int][]*Clause
	Decreases   map[int]*Clause
	Assigns     []*Clause // nil = unspecified; a clause with Text "nothing" = pure
	HasAssigns  bool
	Tokens      bool // the function is verified with the token view of streams
	AssignsAssumed bool
	NoInline    bool
	Inline      bool // execute the body in place at call sites (with this contract's loop annotations) instead of using the contract
	Unroll      map[int]int
	File        string
	Line        int
	Lets        []*Clause // let name = expr (evaluated at entry)
	Cases       []*Clause // cover: each must be satisfiable together with the requires
	Trusted     bool
	Nilable     map[string]bool
	Pure        bool            // calls are modelled as applications of an uninterpreted function of the arguments
	FoldFrame   bool
	NoEffect    map[string]bool // named function types whose values, when called, are ASSUMED to have no effect on modelled state (user callbacks)
	Expand      map[string]bool // callees (keys) whose bodies are executed in place although they are pure / have a contract
	IfaceType   types.Type      // for interface-level contracts
	IfaceMethod string
	IfaceSig    *types.Signature
	TypesPkg    *types.Package
	CallsEns    map[string][]*Clause // assumed results of callbacks (result0, result1, ...)
	Calls       map[string][]*Clause // function-typed parameter -> requirements on its arguments (arg0, arg1, ...)
}

type Clause struct {
	Kind  string
	Label string
	Text  string
	Expr  Expr
	Loop  int
	Name  string // for let
	Line  int

	chanGuard Expr // assigns chanstate(e, cond)
	chanState bool // assigns chanstate(e): e denotes a channel whose queue/closed flag may change
}

func clauseLabel(c *Clause, i int) string {
	if c.Label != "" {
		return c.Label
	}
	return fmt.Sprintf("%d", i)
}

// SpecFunc is a pure specification function defined in a contract file.
type SpecFunc struct {
	Name   string
	Params []string
	PTypes []string
	Ret    string
	Body   Expr
	Pkg    string
}

func (w *World) parseContractFile(pkgShort, filename string, file *ast.File, p *packages.Package) error {
	var cur *Contract
	finish := func() {
		cur = nil
	}
	for _, cg := range file.Comments {
		for _, cm := range cg.List {
			text := cm.Text
			if !strings.HasPrefix(text, "//@") {
				continue
			}
			line := w.Prog.Fset.Position(cm.Pos()).Line
			body := strings.TrimSpace(text[3:])
			if i := strings.Index(body, " //"); i >= 0 {
				body = strings.TrimSpace(body[:i])
			}
			if body == "" {
				continue
			}
			word, rest := splitWord(body)
			switch word {
			case "func", "funcs", "iface":
				finish()
				cur = &Contract{Pkg: pkgShort, Invariants: map[int][]*Clause{}, Decreases: map[int]*Clause{}, Unroll: map[int]int{}, File: filename, Line: line}
				switch word {
				case "func":
					cur.Key = canonKey(pkgShort, rest)
					if _, dup := w.Contracts[cur.Key]; dup {
						return fmt.Errorf("%s:%d: duplicate contract for %s", filename, line, cur.Key)
					}
					w.Contracts[cur.Key] = cur
				case "iface":
					cur.Key = "iface " + pkgShort + "." + rest
					w.Contracts[cur.Key] = cur
					// rest = Type.Method
					dot := strings.LastIndex(rest, ".")
					if dot < 0 {
						return fmt.Errorf("%s:%d: iface needs Type.Method", filename, line)
					}
					tn, ok := p.Types.Scope().Lookup(rest[:dot]).(*types.TypeName)
					if !ok {
						return fmt.Errorf("%s:%d: unknown interface type %s", filename, line, rest[:dot])
					}
					it, ok := tn.Type().Underlying().(*types.Interface)
					if !ok {
						return fmt.Errorf("%s:%d: %s is not an interface", filename, line, rest[:dot])
					}
					cur.IfaceType = tn.Type()
					cur.IfaceMethod = rest[dot+1:]
					cur.TypesPkg = p.Types
					for i := 0; i < it.NumMethods(); i++ {
						if it.Method(i).Name() == cur.IfaceMethod {
							cur.IfaceSig = it.Method(i).Type().(*types.Signature)
						}
					}
					if cur.IfaceSig == nil {
						return fmt.Errorf("%s:%d: no method %s", filename, line, rest)
					}
				case "funcs":
					re, err := regexp.Compile(rest)
					if err != nil {
						return fmt.Errorf("%s:%d: %v", filename, line, err)
					}
					cur.Key = "pattern " + pkgShort + " " + rest
					cur.Pattern = re
					w.Contracts[cur.Key] = cur
				}
			case "inv":
				finish()
				// inv (*T) label: expr   -- type invariant, assumed for (and required from callers of) every method of T
				rt, r2 := splitWord(rest)
				cl := &Clause{Kind: "inv", Line: line}
				if m := labelRe.FindStringSubmatch(r2); m != nil {
					cl.Label = m[1]
					r2 = strings.TrimSpace(r2[len(m[0]):])
				}
				ex, err := ParseExpr(r2)
				if err != nil {
					return fmt.Errorf("%s:%d: %v", filename, line, err)
				}
				cl.Expr, cl.Text = ex, r2
				key := canonKey(pkgShort, rt+".x")
				key = key[:len(key)-2]
				w.TypeInvs[key] = append(w.TypeInvs[key], cl)
			case "spec":
				finish()
				sf, err := parseSpec(rest)
				if err != nil {
					return fmt.Errorf("%s:%d: %v", filename, line, err)
				}
				sf.Pkg = pkgShort
				w.Specs[sf.Name] = sf
			default:
				if cur == nil {
					return fmt.Errorf("%s:%d: clause outside of a func block: %s", filename, line, body)
				}
				if err := cur.addClause(word, rest, line); err != nil {
					return fmt.Errorf("%s:%d: %v", filename, line, err)
				}
			}
		}
	}
	return nil
}

func splitWord(s string) (string, string) {
	i := strings.IndexFunc(s, unicode.IsSpace)
	if i < 0 {
		return s, ""
	}
	return s[:i], strings.TrimSpace(s[i:])
}

// canonKey turns "name", "(*T).m", "(T).m" written inside package pkg into the engine's function key.
func canonKey(pkg, s string) string {
	s = strings.TrimSpace(s)
	if strings.HasPrefix(s, "(*") {
		return "(*" + pkg + "." + s[2:]
	}
	if strings.HasPrefix(s, "(") {
		return "(" + pkg + "." + s[1:]
	}
	return pkg + "." + s
}

func (c *Contract) addClause(word, rest string, line int) error {
	cl := &Clause{Kind: word, Text: rest, Line: line}
	parseLabeled := func(s string) error {
		// optional "label:" prefix (identifier followed by ':' not part of '::')
		if m := labelRe.FindStringSubmatch(s); m != nil {
			cl.Label = m[1]
			s = strings.TrimSpace(s[len(m[0]):])
		}
		ex, err := ParseExpr(s)
		if err != nil {
			return fmt.Errorf("%v in %q", err, s)
		}
		cl.Expr = ex
		cl.Text = s
		return nil
	}
	switch word {
	case "prop":
		for _, p := range strings.Split(rest, ",") {
			c.Props = append(c.Props, strings.TrimSpace(p))
		}
	case "requires":
		if err := parseLabeled(rest); err != nil {
			return err
		}
		c.Requires = append(c.Requires, cl)
	case "ensures":
		if err := parseLabeled(rest); err != nil {
			return err
		}
		c.Ensures = append(c.Ensures, cl)
	case "assumes":
		if err := parseLabeled(rest); err != nil {
			return err
		}
		c.Assumes = append(c.Assumes, cl)
	case "cover":
		if err := parseLabeled(rest); err != nil {
			return err
		}
		c.Cases = append(c.Cases, cl)
	case "let":
		i := strings.Index(rest, "=")
		if i < 0 {
			return fmt.Errorf("let needs name = expr")
		}
		cl.Name = strings.TrimSpace(rest[:i])
		ex, err := ParseExpr(strings.TrimSpace(rest[i+1:]))
		if err != nil {
			return err
		}
		cl.Expr = ex
		c.Lets = append(c.Lets, cl)
	case "invariant", "decreases":
		w, r := splitWord(rest)
		if !strings.HasPrefix(w, "#") {
			return fmt.Errorf("%s needs a loop ordinal #k", word)
		}
		k, err := strconv.Atoi(w[1:])
		if err != nil {
			return err
		}
		cl.Loop = k
		if err := parseLabeled(r); err != nil {
			return err
		}
		if word == "invariant" {
			c.Invariants[k] = append(c.Invariants[k], cl)
		} else {
			c.Decreases[k] = cl
		}
	case "assumes-assigns", "assigns":
		// "assumes-assigns" is used at call sites like assigns, but implementations are NOT checked against it: a
		// stated assumption (reported in evidence)
		if word == "assumes-assigns" {
			c.AssignsAssumed = true
		}
		c.HasAssigns = true
		if strings.TrimSpace(rest) != "nothing" {
			for _, part := range splitTop(rest, ',') {
				ex, err := ParseExpr(part)
				if err != nil {
					return err
				}
				c.Assigns = append(c.Assigns, &Clause{Kind: "assigns", Text: part, Expr: ex, Line: line})
			}
		}
	case "calls":
		// calls <param> requires <expr over arg0..>
		pn, r := splitWord(rest)
		kw, r2 := splitWord(r)
		if kw != "requires" && kw != "ensures" {
			return fmt.Errorf("calls <param> requires|ensures <expr>")
		}
		if err := parseLabeled(r2); err != nil {
			return err
		}
		if c.Calls == nil {
			c.Calls = map[string][]*Clause{}
			c.CallsEns = map[string][]*Clause{}
		}
		if kw == "requires" {
			c.Calls[pn] = append(c.Calls[pn], cl)
		} else {
			c.CallsEns[pn] = append(c.CallsEns[pn], cl)
		}
	case "nilable":
		if c.Nilable == nil {
			c.Nilable = map[string]bool{}
		}
		for _, n := range strings.Split(rest, ",") {
			c.Nilable[strings.TrimSpace(n)] = true
		}
	case "pure":
		c.Pure = true
	case "expand":
		if c.Expand == nil {
			c.Expand = map[string]bool{}
		}
		for _, k := range strings.Split(rest, ",") {
			c.Expand[strings.TrimSpace(k)] = true
		}
	case "assumes-noeffect":
		if c.NoEffect == nil {
			c.NoEffect = map[string]bool{}
		}
		for _, k := range strings.Split(rest, ",") {
			c.NoEffect[strings.TrimSpace(k)] = true
		}
	case "foldframe":
		c.FoldFrame = true
	case "tokens":
		c.Tokens = true
	case "inline":
		c.Inline = true
	case "noinline":
		c.NoInline = true
	case "unroll":
		w, r := splitWord(rest)
		k, err := strconv.Atoi(strings.TrimPrefix(w, "#"))
		if err != nil {
			return err
		}
		n, err := strconv.Atoi(r)
		if err != nil {
			return err
		}
		c.Unroll[k] = n
	case "trusted":
		c.Trusted = true
	default:
		return fmt.Errorf("unknown clause kind %q", word)
	}
	return nil
}

var labelRe = regexp.MustCompile(`^([A-Za-z_][A-Za-z0-9_.\-]*):(?:[^:=]|$)\s*`)

func splitTop(s string, sep rune) []string {
	var out []string
	depth := 0
	start := 0
	for i, r := range s {
		switch r {
		case '(', '[', '{':
			depth++
		case ')', ']', '}':
			depth--
		default:
			if r == sep && depth == 0 {
				out = append(out, strings.TrimSpace(s[start:i]))
				start = i + 1
			}
		}
	}
	out = append(out, strings.TrimSpace(s[start:]))
	return out
}

func parseSpec(s string) (*SpecFunc, error) {
	// name(a T, b U) R = expr
	i := strings.Index(s, "(")
	j := matchParen(s, i)
	if i < 0 || j < 0 {
		return nil, fmt.Errorf("bad spec header")
	}
	sf := &SpecFunc{Name: strings.TrimSpace(s[:i])}
	for _, p := range splitTop(s[i+1:j], ',') {
		if p == "" {
			continue
		}
		n, t := splitWord(p)
		sf.Params = append(sf.Params, n)
		sf.PTypes = append(sf.PTypes, t)
	}
	rest := s[j+1:]
	k := strings.Index(rest, "=")
	if k < 0 {
		return nil, fmt.Errorf("spec needs = body")
	}
	sf.Ret = strings.TrimSpace(rest[:k])
	ex, err := ParseExpr(strings.TrimSpace(rest[k+1:]))
	if err != nil {
		return nil, err
	}
	sf.Body = ex
	return sf, nil
}

func matchParen(s string, i int) int {
	depth := 0
	for k := i; k < len(s); k++ {
		switch s[k] {
		case '(':
			depth++
		case ')':
			depth--
			if depth == 0 {
				return k
			}
		}
	}
	return -1
}

// ContractFor returns the contract applying to fn: an exact one, else the first matching pattern.
func (w *World) ContractFor(key string) *Contract {
	if c, ok := w.Contracts[key]; ok {
		return c
	}
	return nil
}

// ExpandPatterns instantiates pattern contracts for every matching function without an exact contract.
func (w *World) ExpandPatterns() {
	var pats []*Contract
	for _, c := range w.Contracts {
		if c.Pattern != nil {
			pats = append(pats, c)
		}
	}
	for key, fn := range w.Funcs {
		if _, ok := w.Contracts[key]; ok {
			continue
		}
		for _, p := range pats {
			short := strings.TrimPrefix(strings.TrimPrefix(pkgPathOf(fn), repoPrefix), "/")
			if short != p.Pkg {
				continue
			}
			name := strings.TrimPrefix(key, p.Pkg+".")
			if strings.HasPrefix(key, "(") {
				// methods: match against "(*T).m" with package stripped
				name = strings.Replace(key, p.Pkg+".", "", 1)
			}
			if p.Pattern.MatchString(name) {
				cp := *p
				cp.Key = key
				cp.Pattern = nil
				w.Contracts[key] = &cp
				break
			}
		}
	}
	for _, c := range w.Contracts {
		if c.NoInline {
			w.NoInline[c.Key] = true
		}
	}
}

// ---- expression language -----------------------------------------------------------------------

type Expr interface{}

type (
	EBin struct {
		Op   string
		L, R Expr
	}
	EUn struct {
		Op string
		X  Expr
	}
	ECall struct {
		Fn   Expr
		Args []Expr
	}
	EIdent struct{ Name string }
	EInt   struct{ V *big.Int }
	EStr   struct{ S string }
	ESel   struct {
		X     Expr
		Field string
	}
	EIndex struct{ X, I Expr }
	EQuant struct {
		Forall bool
		Var    string
		Type   string
		Body   Expr
	}
	ETypeQuant struct {
		Var, Set string
		Body     Expr
	}
	ETypeArg struct{ Text string } // a type written where an expression is expected (e.g. []byte, *int)
)

type tok struct {
	kind string // ident, int, str, op, eof
	text string
}

type lexer struct {
	toks []tok
	pos  int
}

var ops = []string{"<==>", "==>", "::", "&&", "||", "==", "!=", "<=", ">=", "<<", ">>", "&^", "+", "-", "*", "/", "%", "&", "|", "^", "<", ">", "!", "(", ")", "[", "]", ",", ".", "?", ":"}

func lex(s string) ([]tok, error) {
	var out []tok
	i := 0
	for i < len(s) {
		ch := s[i]
		switch {
		case ch == ' ' || ch == '\t':
			i++
		case ch == '"':
			j := i + 1
			for j < len(s) && s[j] != '"' {
				if s[j] == '\\' {
					j++
				}
				j++
			}
			if j >= len(s) {
				return nil, fmt.Errorf("unterminated string")
			}
			str, err := strconv.Unquote(s[i : j+1])
			if err != nil {
				return nil, err
			}
			out = append(out, tok{"str", str})
			i = j + 1
		case ch >= '0' && ch <= '9':
			j := i
			for j < len(s) && (s[j] >= '0' && s[j] <= '9' || s[j] >= 'a' && s[j] <= 'f' || s[j] >= 'A' && s[j] <= 'F' || s[j] == 'x' || s[j] == 'X' || s[j] == '_') {
				j++
			}
			out = append(out, tok{"int", s[i:j]})
			i = j
		case ch == '_' || unicode.IsLetter(rune(ch)):
			j := i
			for j < len(s) && (s[j] == '_' || unicode.IsLetter(rune(s[j])) || unicode.IsDigit(rune(s[j]))) {
				j++
			}
			out = append(out, tok{"ident", s[i:j]})
			i = j
		default:
			matched := false
			for _, op := range ops {
				if strings.HasPrefix(s[i:], op) {
					out = append(out, tok{"op", op})
					i += len(op)
					matched = true
					break
				}
			}
			if !matched {
				return nil, fmt.Errorf("unexpected character %q", ch)
			}
		}
	}
	out = append(out, tok{"eof", ""})
	return out, nil
}

func ParseExpr(s string) (Expr, error) {
	toks, err := lex(s)
	if err != nil {
		return nil, err
	}
	lx := &lexer{toks: toks}
	e, err := lx.parseQuant()
	if err != nil {
		return nil, err
	}
	if lx.peek().kind != "eof" {
		return nil, fmt.Errorf("unexpected %q", lx.peek().text)
	}
	return e, nil
}

func (l *lexer) peek() tok { return l.toks[l.pos] }
func (l *lexer) next() tok { t := l.toks[l.pos]; l.pos++; return t }
func (l *lexer) accept(op string) bool {
	if t := l.peek(); t.kind == "op" && t.text == op {
		l.pos++
		return true
	}
	return false
}

func (l *lexer) parseQuant() (Expr, error) {
	if t := l.peek(); t.kind == "ident" && t.text == "forallT" {
		// forallT T in ints :: body  -- finite conjunction over a set of Go types
		l.next()
		v := l.next()
		in := l.next()
		set := l.next()
		if v.kind != "ident" || in.text != "in" || set.kind != "ident" || !l.accept("::") {
			return nil, fmt.Errorf("forallT T in <set> :: body")
		}
		body, err := l.parseQuant()
		if err != nil {
			return nil, err
		}
		return &ETypeQuant{Var: v.text, Set: set.text, Body: body}, nil
	}
	if t := l.peek(); t.kind == "ident" && (t.text == "forall" || t.text == "exists") {
		l.next()
		v := l.next()
		if v.kind != "ident" {
			return nil, fmt.Errorf("quantifier needs a variable")
		}
		// type: tokens up to '::'
		var ty []string
		for {
			t := l.peek()
			if t.kind == "eof" {
				return nil, fmt.Errorf("quantifier needs ::")
			}
			if t.kind == "op" && t.text == "::" {
				l.next()
				break
			}
			ty = append(ty, l.next().text)
		}
		body, err := l.parseQuant()
		if err != nil {
			return nil, err
		}
		return &EQuant{Forall: t.text == "forall", Var: v.text, Type: strings.Join(ty, ""), Body: body}, nil
	}
	return l.parseBin(0)
}

var precs = [][]string{
	{"<==>"},
	{"==>"},
	{"||"},
	{"&&"},
	{"==", "!=", "<", "<=", ">", ">="},
	{"+", "-", "|", "^"},
	{"*", "/", "%", "<<", ">>", "&", "&^"},
}

func (l *lexer) parseBin(level int) (Expr, error) {
	if level >= len(precs) {
		return l.parseUnary()
	}
	lhs, err := l.parseBin(level + 1)
	if err != nil {
		return nil, err
	}
	for {
		t := l.peek()
		if t.kind != "op" {
			return lhs, nil
		}
		found := false
		for _, op := range precs[level] {
			if t.text == op {
				found = true
			}
		}
		if !found {
			return lhs, nil
		}
		l.next()
		var rhs Expr
		if t.text == "==>" {
			// right associative; the consequent may be a quantifier
			if p := l.peek(); p.kind == "ident" && (p.text == "forall" || p.text == "exists") {
				rhs, err = l.parseQuant()
			} else {
				rhs, err = l.parseBin(level)
			}
			if err != nil {
				return nil, err
			}
			return &EBin{Op: t.text, L: lhs, R: rhs}, nil
		}
		rhs, err = l.parseBin(level + 1)
		if err != nil {
			return nil, err
		}
		lhs = &EBin{Op: t.text, L: lhs, R: rhs}
	}
}

func (l *lexer) parseUnary() (Expr, error) {
	t := l.peek()
	if t.kind == "op" {
		switch t.text {
		case "!", "-", "^", "*":
			l.next()
			x, err := l.parseUnary()
			if err != nil {
				return nil, err
			}
			return &EUn{Op: t.text, X: x}, nil
		}
	}
	return l.parsePostfix()
}

func (l *lexer) parsePostfix() (Expr, error) {
	var x Expr
	t := l.next()
	switch t.kind {
	case "int":
		v, ok := new(big.Int).SetString(strings.ReplaceAll(t.text, "_", ""), 0)
		if !ok {
			return nil, fmt.Errorf("bad integer %q", t.text)
		}
		x = &EInt{V: v}
	case "str":
		x = &EStr{S: t.text}
	case "ident":
		x = &EIdent{Name: t.text}
	case "op":
		switch t.text {
		case "(":
			e, err := l.parseQuant()
			if err != nil {
				return nil, err
			}
			if !l.accept(")") {
				return nil, fmt.Errorf("missing )")
			}
			x = e
		case "[":
			// slice type as type argument: []T
			if !l.accept("]") {
				return nil, fmt.Errorf("unexpected [")
			}
			rest, err := l.parsePostfix()
			if err != nil {
				return nil, err
			}
			return &ETypeArg{Text: "[]" + exprText(rest)}, nil
		default:
			return nil, fmt.Errorf("unexpected %q", t.text)
		}
	default:
		return nil, fmt.Errorf("unexpected end of expression")
	}
	for {
		switch {
		case l.accept("."):
			f := l.next()
			if f.kind != "ident" {
				return nil, fmt.Errorf("selector needs identifier")
			}
			x = &ESel{X: x, Field: f.text}
		case l.accept("("):
			var args []Expr
			for !l.accept(")") {
				a, err := l.parseQuant()
				if err != nil {
					return nil, err
				}
				args = append(args, a)
				if !l.accept(",") {
					if !l.accept(")") {
						return nil, fmt.Errorf("missing ) in call")
					}
					break
				}
			}
			x = &ECall{Fn: x, Args: args}
		case l.accept("["):
			i, err := l.parseQuant()
			if err != nil {
				return nil, err
			}
			if !l.accept("]") {
				return nil, fmt.Errorf("missing ]")
			}
			x = &EIndex{X: x, I: i}
		default:
			return x, nil
		}
	}
}

func exprText(e Expr) string {
	switch x := e.(type) {
	case *EIdent:
		return x.Name
	case *ESel:
		return exprText(x.X) + "." + x.Field
	case *EUn:
		return x.Op + exprText(x.X)
	case *ETypeArg:
		return x.Text
	}
	return "?"
}
