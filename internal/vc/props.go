package vc

import (
	"regexp"
	"strings"
)

// PropSpec says which functions and obligation classes decide a property.
type PropSpec struct {
	ID        string
	Title     string
	Groups    []Group
	Assume    []string      // property-level assumptions reported in evidence
	Bounded   []string      // bounded stand-ins (reported separately, never counted as discharged)
	Tests     []BoundedTest // executed bounded stand-ins
	DesignRef string
}

// BoundedTest is an exhaustive execution over a stated finite domain, run in-package through go test -overlay.
type BoundedTest struct {
	Name, PkgDir, File, Run, Bound string
}

// Group selects functions by key pattern and the obligation classes that count for the property.
type Group struct {
	Funcs        string   // regexp over function keys
	Except       string   // regexp of keys to skip
	Classes      []string // obligation classes kept (nil: all)
	NoCt         bool     // ignore contracts (pure safety sweep)
	OnlyCt       bool     // only functions that have a contract tagged with this property
	AbstractConc bool     // ignore go statements / opaque channels
	Own          bool     // ownership discipline of deep copies (C17)
	Narrow       bool     // value-changing integer conversions must be provably exact (C13)
	Share        bool     // sharing discipline of codecs (C18)
	SkipObl      string   // regexp over obligation names that belong to another property's claim
	OnlyObl      string   // regexp: of the post/cover obligations only these count (other classes unaffected)
}

var safetyClasses = []string{"post", "unwind", "alloc", "index", "nil", "typeassert", "div", "shift", "panic", "pre", "auto-inv-init", "auto-inv-step", "auto-decreases", "decreases", "inv-init", "inv-step", "cover", "frame"}

var allClasses []string // nil = everything

// Props is the table of claimed properties.
var Props = map[string]*PropSpec{}

func reg(p *PropSpec) { Props[p.ID] = p }

func init() {
	reg(&PropSpec{ID: "C04", Title: "Decoders never panic, fault or hang on arbitrary input bytes", DesignRef: "DESIGN.md §4 C04",
		Groups: []Group{
			{Funcs: `^primitive\.Read`, Classes: safetyClasses},
			{Funcs: `^primitive\.decodeZigZag$`, Classes: safetyClasses},
			{Funcs: `^datatype\.(Read|read)`, Classes: safetyClasses},
			{Funcs: `^\(\*message\.[a-zA-Z]+Codec\)\.Decode$`, Classes: safetyClasses},
			{Funcs: `^message\.(Decode|decode)`, Classes: safetyClasses},
			{Funcs: `^\(\*frame\.codec\)\.(DecodeFrame|DecodeRawFrame|DecodeHeader|DecodeBody|DecodeRawBody|DiscardBody|ConvertFromRawFrame)$`, Classes: safetyClasses},
			{Funcs: `^\(\*segment\.codec\)\.(DecodeSegment|decodeSegmentHeader|decodeSegmentPayload)$`, Classes: safetyClasses},
			{Funcs: `^crc\.`, Except: `\.lemma[A-Z]|^crc\.crc24Ref$`, Classes: safetyClasses},
			{Funcs: `^\(compression/(lz4|snappy)\.Compressor\)\.Decompress`, Classes: safetyClasses},
			{Funcs: `^compression/(lz4|snappy)\.(decompress|bufferFromReader)$`, Classes: safetyClasses},
			{Funcs: `^datacodec\.read[A-Z]`, Classes: safetyClasses},
			{Funcs: `^\(\*datacodec\.[a-zA-Z]+Codec\)\.Decode$`, Except: `collectionCodec|mapCodec|tupleCodec|udtCodec`, Classes: safetyClasses},
			{Funcs: `^datacodec\.convertFrom`, Classes: safetyClasses},
			{Funcs: `^\(\*datacodec\.[a-zA-Z]+Codec\)\.createInjector\$\d+$`, Classes: safetyClasses},
			{Funcs: `^datacodec\.(adjustSliceLength|readCollectionSize)$`, Classes: safetyClasses},
			// error paths format what they rejected: a String()/Error() method that hands its own receiver to fmt with a
			// verb that calls String() recurses until the stack overflows (not recoverable)
			{Funcs: `^\(\*?(primitive|message|frame|datatype|segment|datacodec)\.[A-Za-z]+\)\.(String|Error)$`, Except: `^\(\*primitive\.UUID\)\.String$`, NoCt: true, Classes: []string{"panic"}},
		},
		Assume: []string{
			"stack size: only recursion depth is bounded (each ReadDataType level consumes input), not stack bytes",
			"allocation volume is not a panic: a huge make() from a 4-byte length is reported as a note, not an obligation",
		}})
}

// C03 is about counts: encoder-side nil/index safety of caller-supplied structures is not part of it
var c03Classes = []string{"post", "pre", "inv-init", "inv-step", "auto-inv-init", "auto-inv-step", "frame", "cover", "unwind", "decreases", "auto-decreases"}

var c13Classes = []string{"post", "pre", "narrow", "cover", "inv-init", "inv-step", "frame"}

func init() {
	reg(&PropSpec{ID: "C13", Title: "Numeric conversions never lose information silently", DesignRef: "DESIGN.md §4 C13",
		Groups: []Group{
			// every function of conversions.go and math.go (narrowing helpers, exact arithmetic)
			{Funcs: `^datacodec\.(u?int(8|16|32|64)?To[A-Za-z0-9]+|stringToInt(8|16|32|64)|bigIntTo[A-Za-z0-9]+|float64ToFloat32|bigFloatToFloat64|addExact)$`, Classes: c13Classes, Narrow: true},
			// the CQL-type dispatchers: one clause family per accepted Go representation
			{Funcs: `^datacodec\.convert(To|From)(Int(8|16|32|64)|Float(32|64)|Int32Date|Int64Time|Int64Timestamp|Boolean|BigInt)$`, Classes: c13Classes, Narrow: true},
			{Funcs: `^datacodec\.(readDuration|ConvertTimeToEpochDays|ConvertDurationToNanosOfDay|ConvertNanosOfDayToDuration)$`, Classes: c13Classes, Narrow: true},
		},
		Assume: []string{
			"int and uint are 64 bits wide (strconv.IntSize == 64); the intSize == 32 branches are proved against the 32-bit ranges as well",
			"floorDiv, floorMod and multiplyExact are NOT under proof: their statements need a 64x64-bit product or division, undecided by z3 4.8.12, z3 5.1.0 and cvc5 1.0.3 within 30 s (DESIGN.md §9); they are listed as undecided, not claimed",
			"(*big.Float).Float64 is used through an assumed contract (accuracy == big.Exact exactly when the value is representable); bigFloatToFloat64 is proved to succeed exactly in that case",
		}})
}

func init() {
	reg(&PropSpec{ID: "C19", Title: "Declared constants and validity checks agree; capability tables match specs", DesignRef: "DESIGN.md §4 C19",
		Groups: []Group{
			{Funcs: `^\(primitive\.[A-Za-z]+\)\.[A-Za-z0-9]+$|^primitive\.Check`, OnlyCt: true, Classes: []string{"post", "pre", "cover", "unwind", "inv-init", "inv-step", "panic"}},
		},
		Assume: []string{
			"capability truth tables were transcribed by hand from specs/*.spec (sections on query flags, result metadata, error bodies, framing) - the transcription is the oracle",
			"for version numbers the library does not declare only totality of the predicates is required",
		}})
}

func init() {
	reg(&PropSpec{ID: "C20", Title: "Frame mutators keep flags and body in step; option accessors consistent", DesignRef: "DESIGN.md §4 C20",
		Groups: []Group{
			{Funcs: `^frame\.NewFrame$|^\(\*frame\.Frame\)\.(Set|Request)[A-Za-z]+$`, OnlyCt: true},
			{Funcs: `^\(\*message\.Startup\)\.[A-Za-z]+$`, OnlyCt: true},
		},
		Assume: []string{
			"holding after every sequence of mutator calls is the induction that 'requires Inv / ensures Inv' on every mutator is; the link to 'still encodes and round-trips' is the precondition of the frame encoder (C01), not re-proved here",
			"SetTracingId is specified for response frames and RequestTracingId for request frames, as their documentation states",
		}})
}

func init() {
	reg(&PropSpec{ID: "C06", Title: "Segment round trip and v5 framing layout", DesignRef: "DESIGN.md §4 C06",
		Groups: []Group{
			{Funcs: `^crc\.(ChecksumKoopman|lemmaCrc24Len3|lemmaCrc24Len5)$`, OnlyCt: true},
			{Funcs: `^\(\*segment\.codec\)\.(writeHeaderDataAndCrc|encodeHeaderUncompressed|encodeHeaderCompressed|writePayloadCrc|EncodeSegment|encodeSegmentUncompressed|encodeSegmentCompressed|decodeSegmentHeader|decodeSegmentPayload|DecodeSegment)$`},
			{Funcs: `^segment\.lemmaHeaderRoundTrip(Uncompressed|Compressed)$`, OnlyCt: true},
		},
		Assume: []string{
			"hash/crc32.Update is the standard CRC-32 state function of (state, bytes); crc.initialChecksum is that function applied to FA 2D 55 CA (package initialiser, not re-proved)",
			"the reference CRC-24 routine crc24Ref is a literal transcription of org.apache.cassandra.net.Crc.crc24 (the v5 specification names the CRC but prints no code)",
			"ASSUMED, not proved: a PayloadCompressor appends at most 2n+16 bytes for n input bytes (LZ4's block bound n + n/255 + 16 is below that); the LZ4 algorithm itself and payload equality through compress/decompress are not covered (C08)",
			"the uncompressed fallback is signalled by uncompressed-length 0 as the code and Cassandra's FrameEncoderLZ4 do; the prose of v5 spec 2.3.2 says 'compressed length 0' (DESIGN.md §4 C06)",
		}})
	reg(&PropSpec{ID: "C07", Title: "Corrupted segments are rejected, never delivered", DesignRef: "DESIGN.md §4 C07",
		Groups: []Group{
			{Funcs: `^crc\.(ChecksumKoopman|lemmaCrc24Len3|lemmaCrc24Len5)$`, OnlyCt: true},
			{Funcs: `^\(\*segment\.codec\)\.(decodeSegmentHeader|decodeSegmentPayload|DecodeSegment)$`},
		},
		Bounded: []string{
			"NOT proved: that CRC-24 with polynomial 0x1974F0B has minimum distance 8 on 48/64-bit codewords and that CRC-32 detects 1-2 bit errors and bursts <= 32 bits are coding-theory facts about the polynomials (undecided as SMT goals, DESIGN.md §9); what is proved is that the decoder compares all 24/32 bits of exactly those checksums, computed with the specified constants, before it trusts any field or payload byte",
		},
		Assume: []string{
			"hash/crc32.Update computes the IEEE CRC-32 (assumed contract)",
		}})
}

func init() {
	reg(&PropSpec{ID: "C17", Title: "Deep copies are equal to and independent of their originals", DesignRef: "DESIGN.md §4 C17",
		Groups: []Group{
			{Funcs: `\)\.(DeepCopyInto|DeepCopy|DeepCopyMessage|DeepCopyDataType)$`, Own: true,
				Classes: []string{"own", "post", "pre", "nil", "index", "alloc", "cover", "auto-inv-init", "auto-inv-step", "typeassert"}},
		},
		Assume: []string{
			"the ownership contract is generated from the current type definitions (go/types) on every run: a field added without regenerating the copy functions fails post:own.<field>",
			"equality half: proved for every scalar component, nil-ness and slice lengths at the first level of each DeepCopyInto; element-wise equality of copied slices/maps is not stated (copy() and the generated loops are trusted for contents)",
			"strings are immutable and may be shared; function and channel values are not considered mutable state",
		}})
}

func init() {
	reg(&PropSpec{ID: "C03", Title: "Declared lengths equal emitted bytes; back-to-back frames decode in sequence", DesignRef: "DESIGN.md §4 C03",
		Groups: []Group{
			{Funcs: `^primitive\.(Write|LengthOf)[A-Za-z]+$`, OnlyCt: true, Classes: c03Classes},
			{Funcs: `^\(\*frame\.codec\)\.(uncompressedBodyLength|encodeBodyUncompressed|EncodeHeader|encodeFrameUncompressed|EncodeRawFrame)$`, OnlyCt: true, Classes: c03Classes},
			{Funcs: `^message\.lemmaLen[A-Za-z]+$|^message\.lemmaDecodeLen[A-Za-z]+$`, OnlyCt: true, Classes: c03Classes},
			// RESULT: columns metadata (fold over the column specifications), the codec's closed forms per kind (nested
			// folds over rows and cells); REGISTER: the string-list copy of the event types
			{Funcs: `^message\.(encodeColumnsMetadata|lengthOfColumnsMetadata|asStringList)$|^\(\*message\.resultCodec\)\.(Encode|EncodedLength)$`, OnlyCt: true, Classes: c03Classes},
			// implementers refine the interface contract Error.GetErrorMessage (each returns its own field)
			{Funcs: `^\(\*message\.[A-Za-z]+\)\.GetErrorMessage$`, Classes: []string{"post", "cover"}},
			// type descriptors ([option]): per-kind writer/length pairs and the top-level agreement lemma
			{Funcs: `^datatype\.(write|lengthOf)(Custom|List|Set|Map)Type$|^datatype\.lemmaDataTypeLen$`, OnlyCt: true, Classes: c03Classes},
			{Funcs: `^\(\*datatype\.[A-Za-z]+\)\.Code$`, Classes: []string{"post", "cover"}},
			{Funcs: `^\(\*message\.eventCodec\)\.(Encode|EncodedLength)$`, OnlyCt: true, Classes: c03Classes},
			// an empty compressed body is exactly 5 bytes on the wire and the reader consumes all 5
			{Funcs: `^\(compression/lz4\.Compressor\)\.DecompressWithLength$`, OnlyCt: true, Classes: c03Classes},
		},
		Assume: []string{
			"ASSUMED, not proved: for the map-typed notations ([string map], [string multimap], [bytes map], named values) the writer and the length function agree (both range over a Go map; tied to one abstract length)",
			"encLen(codec, message, version): the frame-level statements use one abstract length per (codec, message, version); it is discharged per codec: RESULT and EVENT by closed-form postconditions per message kind on Encode and on EncodedLength (nested fold invariants over rows and cells, fold over column specifications) plus one lemma per kind; REGISTER by a contract for its string-list copy (fold frame axiom: a fold over a prefix does not depend on later elements - a stated mathematical fact); ERROR by one clause per kind (15: all but READ_FAILURE, WRITE_FAILURE, FUNCTION_FAILURE); STARTUP, OPTIONS, READY, AUTHENTICATE, AUTH_CHALLENGE, AUTH_RESPONSE, AUTH_SUCCESS, SUPPORTED, PREPARE, REVISE by lemma functions executing both bodies; every lemma has reachability covers for its own statements",
			"NOT decided (session 4: these lemmas had become vacuous through a model assumption; repaired, they are not decided within the budget and are marked not claimed): QUERY, EXECUTE, BATCH, and the agreement of encodeRowsMetadata/encodeVariablesMetadata with their length functions - RESULT Prepared/Rows therefore rest on ONE ASSUMED abstract length per metadata object; the reason map of the failure errors is tied to one abstract length by assumption",
			"body length fits a signed 32-bit integer (precondition of encodeFrameUncompressed / EncodeRawFrame); messages are not modified while being encoded",
			"type descriptors: custom, list, set and map writer/length pairs are proved against one abstract length per descriptor (dtLen); DataType.Code is a function of the descriptor (interface contract refined by all seven implementers); a lemma executes WriteDataType and LengthOfDataType on the same descriptor, decided per kind for custom, list, set, map and user-defined types - NOT for primitive types and tuples; user-defined types and tuples (loops over field types) are tied to one abstract length each by ASSUMPTION",
			"decoder half, per codec: Decode consumes exactly EncodedLength(decoded message) bytes for AUTHENTICATE, AUTH_RESPONSE, AUTH_CHALLENGE, AUTH_SUCCESS, OPTIONS, READY, REVISE and 15 ERROR kinds (all but the failure errors with reason maps and FUNCTION_FAILURE) - lemma functions running the real Decode and then the real EncodedLength; other codecs and the frame level (DecodeFrame consumes header + BodyLength) are not covered (C05 covers the raw operations); for compressed bodies only the LZ4 empty-message format (5 bytes, all consumed) is stated",
		}})
}

func init() {
	reg(&PropSpec{ID: "C08", Title: "Compression is lossless for every input (wrappers of this repository)", DesignRef: "DESIGN.md §4 C08",
		Groups: []Group{
			{Funcs: `^compression/lz4\.(decompress|bufferFromReader)$`},
			{Funcs: `^\(compression/lz4\.Compressor\)\.(Compress|CompressWithLength|Decompress|DecompressWithLength)$`},
			{Funcs: `^compression/snappy\.bufferFromReader$|^\(compression/snappy\.Compressor\)\.(CompressWithLength|DecompressWithLength)$`},
		},
		Assume: []string{
			"ASSUMED contracts of github.com/pierrec/lz4/v4: a block is invalid or denotes one byte string; UncompressBlock succeeds exactly when the block is valid and the destination is at least that long, and returns (0, err) otherwise; the empty block decodes to nothing; CompressBlock succeeds into a buffer of CompressBlockBound(n) bytes; no block expands by more than 255:1",
			"NOT covered: that decompress(compress(b)) == b end to end (the LZ4 and Snappy algorithms are third-party code, partly assembly; the byte strings flow through bytes.Buffer/Reader and the proof would need an extensional byte-string theory); what is proved is what this repository owns: the output-buffer sizing loop of decompress succeeds on every valid block with the exact length and terminates, no wrapper panics, and each wrapper touches only its two streams",
			"snappy.Encode/Decode are used without contract (results unconstrained)",
		}})
}

func init() {
	reg(&PropSpec{ID: "C15", Title: "Client and server exchange frames intact (mechanisms only)", DesignRef: "DESIGN.md §4 C15",
		Groups: []Group{
			{Funcs: `^client\.newCql(Client|Server)Connection$|^\(\*client\.Cql(Client|Server)Connection\)\.(writeSegment|maybeSwitchToModernLayout)$|^\(\*client\.CqlClientConnection\)\.(addMultiSegmentPayload|readFrame)$|^\(\*client\.payloadAccumulator\)\.reset$`,
				OnlyCt: true, AbstractConc: true, Classes: []string{"post", "pre", "nil", "index", "alloc", "typeassert", "frame", "cover"},
				// the in-flight table invariants that processIncomingFrame's contract (C10) requires are established by the
				// constructor and kept by the handler operations; that the receive loop calls it in such a state is not part
				// of C15's claim (listed as an assumption under C10)
				SkipObl: `:pre:processIncomingFrame\.`},
			// every envelope of a self-contained segment reaches the frame reader (only the postcondition is claimed here:
			// the connection invariant across the reader's side effects is not re-established by these contracts)
			{Funcs: `^\(\*client\.Cql(Client|Server)Connection\)\.readSelfContainedSegment$`, OnlyCt: true, AbstractConc: true, Classes: []string{"post", "cover"}},
		},
		Assume: []string{
			"MECHANISM LEVEL ONLY: sockets, the two loops per connection, handshake sequencing, concurrent senders and an independent peer are outside what a per-call contract states; go statements in the constructors are ignored (the goroutines they start are not modelled), channels are opaque",
			"ASSUMED about frame codecs used through the frame.Codec / frame.RawCodec interfaces: DecodeFrame / DecodeHeader return non-nil results on success; zerolog calls have no effect; context.WithCancel returns non-nil values",
			"the server-side read path (readFrame adopting STARTUP's compression, server addMultiSegmentPayload) is not under proof",
		}})
}

func init() {
	reg(&PropSpec{ID: "C18", Title: "Codecs can be shared by concurrent goroutines (no call writes shared state)", DesignRef: "DESIGN.md §11 C18",
		Groups: []Group{
			{Funcs: `^(\(\*?)?(primitive|datatype|message|frame|segment|crc|compression/lz4|compression/snappy|datacodec)\.`,
				Except: `(^|\.)init(#\d+)?$|\.lemma[A-Z]|^crc\.crc24Ref$|\)\.(DeepCopyInto|DeepCopy|DeepCopyMessage|DeepCopyDataType)$|^\(\*frame\.codec\)\.SetBodyCompressor$|^primitive\.ParseUuid$|^\(\*primitive\.UUID\)\.String$|^datacodec\.read(Collection|Map|Tuple|Udt)$`,
				Share: true, Classes: []string{"share"}},
		},
		Assume: []string{
			"PRECONDITION (the property's 'distinct frames or values'): memory reachable from a call's non-codec arguments (frame, message, value, destination, reader, writer) is not reachable from any codec, compressor, data-type object, package-level variable or another goroutine's arguments; own(x) is assumed for those arguments and propagated through loads from pre-existing owned objects",
			"what is proved: every store, map update, in-place append, copy, stream write and callee write-permission in the listed functions goes to memory the call allocated itself or to caller-owned memory - never to the shared receiver (types implementing the codec/compressor/DataType interfaces), to a package-level variable or to anything loaded from them; hence concurrent calls share only memory nobody writes and each call's result is the sequential function of its own arguments",
			"NOT covered: interleavings as such and the race detector's view; the decoding side of the container codecs (readCollection/readMap/readTuple/readUdt, injectors, PreferredGoType) uses package reflect and is outside the subset; the encoding side (writeCollection/writeMap/writeTuple/writeUdt) is covered under the ASSUMPTION that what an extractor returns belongs to the caller's source value and listed under rejected/outside; third-party code (lz4's internal pools, snappy) and the standard library are trusted to be goroutine-safe; (*frame.codec).SetBodyCompressor is a configuration call that writes its receiver by design and is excluded; package initialisers are excluded",
			"callees not executed in place may write only through arguments that the call site proves fresh or caller-owned; arguments a callee provably never writes through (syntactic read-only analysis, conservative) and arguments of shared static type (never writable anywhere) are exempt",
		}})
}

var layoutClasses = []string{"post", "pre", "cover", "frame", "inv-init", "inv-step", "auto-inv-init", "auto-inv-step", "unwind", "decreases", "auto-decreases"}

func init() {
	reg(&PropSpec{ID: "C05", Title: "Header-only and raw-body operations agree with the full codec (byte accounting and raw round trip)", DesignRef: "DESIGN.md §11 C05",
		Groups: []Group{
			{Funcs: `^\(\*frame\.codec\)\.(DecodeRawBody|DiscardBody|DecodeRawFrame|ConvertToRawFrame|ConvertFromRawFrame|DecodeBody|EncodeRawFrame|DecodeHeader|EncodeHeader)$`, OnlyCt: true, Classes: layoutClasses},
			{Funcs: `^frame\.lemmaRawRoundTrip$`, OnlyCt: true, Classes: layoutClasses},
			// the compressed flag alone decides whether the body goes through the compressor (token view)
			{Funcs: `^frame\.lemmaEncodeBodyFlag$`, OnlyCt: true, Classes: []string{"post", "cover"}},
			{Funcs: `Compressor\)\.(Compress|Decompress)WithLength$`, Classes: []string{"post", "frame", "pre"}},
		},
		Assume: []string{
			"covered: DecodeRawBody and DiscardBody (seekable and plain sources) consume exactly Header.BodyLength bytes and refuse negative lengths; DecodeRawFrame = decoded header + exactly the declared bytes, unchanged; EncodeRawFrame = header bytes with BodyLength = len(body) + the body bytes unchanged; EncodeRawFrame then DecodeRawFrame returns the same header fields and body bytes; ConvertToRawFrame keeps the header object and declares the produced body's length; ConvertFromRawFrame keeps the header object; a compressed body is decompressed from at most BodyLength bytes (io.LimitReader) and body compressors touch only their two streams",
			"covered (token view, ASSUMED token clause of the body compressor): with the compressed flag set, a successful EncodeBody writes exactly one element and it is the compressor's - a body is never written in plain under a header that announces compression (a seeded change that skipped compression for STARTUP/OPTIONS/READY was missed before this clause)",
			"NOT covered: that DecodeFrame and DecodeRawFrame+ConvertFromRawFrame yield equal message contents (a relational statement over two decodings of the body), and the re-encode clause for arbitrary decodable inputs (needs the per-message round trip of C01)",
			"ASSUMED: io.Seeker's documented contract; io.CopyN/io.LimitReader/bytes.Buffer stream models; message decoders write to no pre-existing stream other than their source (assumes-assigns; the C18 discipline is what backs it)",
			"for a seekable source shorter than the declared body, DiscardBody returns nil where the plain-reader path reports an error; the contract states 'consumes exactly BodyLength' only when that many bytes exist (the property quantifies over valid frames)",
		}})
	reg(&PropSpec{ID: "C02", Title: "Emitted bytes conform to the specification (frame header, rejection clause, scalar and string/bytes notations)", DesignRef: "DESIGN.md §11 C02",
		Groups: []Group{
			{Funcs: `^primitive\.(Write|Read)(Byte|Short|Int|Long|StreamId|Bytes|ShortBytes|String|LongString)$`, OnlyCt: true, Classes: layoutClasses},
			{Funcs: `^primitive\.((Write|Read|LengthOf)UnsignedVint|(en|de)codeZigZag)$`, OnlyCt: true, Classes: layoutClasses},
			{Funcs: `^\(\*frame\.codec\)\.(EncodeHeader|DecodeHeader|EncodeRawFrame|DecodeRawFrame|encodeBodyUncompressed|DecodeBody)$`, OnlyCt: true, Classes: layoutClasses},
			{Funcs: `^frame\.lemmaHeaderRoundTrip$`, OnlyCt: true, Classes: layoutClasses},
			{Funcs: `^primitive\.(WriteStringList|WriteBytesMap|ReadStringList)$|^\(\*message\.[A-Za-z]+\)\.Flags$|^message\.lemmaLayout[A-Za-z]+$`, OnlyCt: true, Classes: layoutClasses},
		},
		Assume: []string{
			"the oracle is a transcription of the specifications into contract language (frame/contracts_verif.go: header layout, supported versions 2,3,4,5,0x41,0x42, request/response opcode tables; primitive/contracts_verif.go: big-endian [byte]/[short]/[int]/[long], stream id width by version, [string], [long string], [bytes] with null = -1, [short bytes]) - independent of the code under proof",
			"covered: EncodeHeader emits exactly the specified bytes and refuses unsupported versions; DecodeHeader reads exactly those fields from exactly those bytes and accepts only supported versions and opcodes whose direction matches the direction bit (all 2^16 version/opcode bytes, all streams); every listed notation writer emits, and its reader accepts, exactly the specified bytes",
			"covered: the order of the body prefix, [tracing id][warnings][custom payload], on the write side and (uncompressed responses) on the read side - this obligation failed on the original tree (custom payload and warnings were swapped in both directions) and is fixed; the count prefix of [string list] and [bytes map]; flags set exactly when their field is present",
			"covered through the token view (each element of the specification's layout is the k-th notation written into a fresh buffer, its kind and payload stated; ASSUMED token clauses of the notation writers): the QUERY/EXECUTE options <consistency><flags>[values][page size][paging state][serial consistency][timestamp][keyspace][now] and the RESULT Rows metadata prefix <flags><columns_count>[paging state][new metadata id][continuous page no]",
			"NOT covered: the body layout of the remaining messages (field order and presence per version), [value], [inet], [uuid], maps and lists, type descriptors; those parts of C02 remain undecided by this check; capability predicates per version are proved against spec tables under C19",
		}})
	reg(&PropSpec{ID: "C01", Title: "Frame round-trip fidelity (frame header, raw frames, 20 message kinds, table-spec flag)", DesignRef: "DESIGN.md §11 C01",
		Groups: []Group{
			{Funcs: `^frame\.lemma(Header|Raw)RoundTrip$`, OnlyCt: true, Classes: layoutClasses},
			{Funcs: `^\(\*frame\.codec\)\.(EncodeHeader|DecodeHeader|EncodeRawFrame|DecodeRawFrame)$`, OnlyCt: true, Classes: layoutClasses},
			{Funcs: `^message\.haveSameTable$|^\(\*message\.[A-Za-z]+\)\.Flags$`, OnlyCt: true, Classes: append([]string{"nil", "index"}, layoutClasses...)},
			// lemma functions: their own postconditions (the safety of the codec bodies they execute is C04's business)
			{Funcs: `^message\.lemma(Tok)?RoundTrip[A-Za-z]+$`, OnlyCt: true, Classes: []string{"post", "cover"}},
		},
		Assume: []string{
			"covered: for every header with a supported version, an opcode of the matching direction and (v2) a stream id in [-128,127], EncodeHeader succeeds into a buffer and DecodeHeader of those bytes succeeds and returns the same direction, version, flags, stream id, opcode and body length; the same with an opaque body of any length and content (raw frames); haveSameTable (which sets the GLOBAL_TABLES_SPEC flag that makes the decoder copy one keyspace/table into every column) is true exactly when all columns share keyspace and table",
			"covered: every flag of QueryOptions, Batch, Prepare, RowsMetadata and VariablesMetadata is set exactly when the field it announces is present (and no other bit is set) - the writer and the reader both branch on these flags",
			"covered per message (lemma functions generated by tools/gen_roundtrip.py, each running the real Encode into a buffer and the real Decode on it, strings and byte strings compared by length and byte by byte): AUTHENTICATE, AUTH_RESPONSE, AUTH_CHALLENGE, AUTH_SUCCESS (nil token distinguished), OPTIONS, READY, PREPARE (query), REVISE, RESULT Void, RESULT SetKeyspace, and the ten ERROR kinds that carry only a message",
			"covered per message through the TOKEN VIEW of the buffer (tokens.go: the stream as the sequence of notations written; the token clauses of the notation writers/readers are ASSUMED, justified by their byte-level contracts under C02): PREPARE incl. keyspace, STARTUP (option map), ERROR Unavailable, ReadTimeout, WriteTimeout (incl. the version- and CAS-dependent contentions), AlreadyExists, Unprepared, FunctionFailure - field-by-field equality and 'what Encode accepted Decode accepts'",
			"covered through the token view since session 4: EVENT SchemaChange (change type, target, keyspace, object, arguments per version and target), EVENT StatusChange/TopologyChange (change type; the address is not compared), EXECUTE ids, RESULT SchemaChange, and the RESULT Rows metadata prefix without column specifications (column count, paging state, new metadata id, continuous page number and last-page flag all together)",
			"NOT covered: SUPPORTED (multimap), REGISTER, bound values of QUERY/EXECUTE/BATCH, BATCH, RESULT Rows data and column specifications, RESULT Prepared, failure errors with reason maps, [inet] fields, the body prefix (tracing id, custom payload, warnings) and compression (C08 covers the wrappers) - these parts of C01 remain undecided by this check; length agreement is C03, flags/body consistency C20",
		}})
}

func init() {
	reg(&PropSpec{ID: "C09", Title: "Stream ids: unique while in flight, bounded, recycled, refused when exhausted (sequential mechanism)", DesignRef: "DESIGN.md §11 C09",
		Groups: []Group{
			{Funcs: `^client\.(newInFlightRequestsHandler|isLastFrame)$|^\(\*client\.inFlightRequestsHandler\)\.(onOutgoingFrameEnqueued|onIncomingFrameReceived)$`, OnlyCt: true, AbstractConc: true,
				Classes: []string{"post", "pre", "inv-init", "inv-step", "auto-inv-init", "auto-inv-step", "auto-decreases", "decreases", "cover", "panic", "alloc"},
				SkipObl: `:post:c10_`},
		},
		Assume: []string{
			"SEQUENTIAL MECHANISM ONLY: the statements hold for any sequence of handler operations executed one after another (the representation invariant poolInv is assumed and re-established by each: an induction over histories); interleavings of concurrent senders with the responder, the RW lock's role, timeouts and close are NOT decided - go statements are ignored and sync primitives are no-ops",
			"the pool of free ids (a buffered chan int16) is modelled as a bounded multiset: FIFO order is abstracted (every real behaviour is a behaviour of the model); a blocking operation that cannot proceed ends the path; atomic loads/stores are plain loads/stores",
			"the per-request object (newInFlightRequest, startTimeout, onFrameReceived, close) is used through its contracts, which are proved under C10 (they touch only their own request; newInFlightRequest returns a fresh request carrying the given id and flag)",
			"proved: a frame is final for its response unless it is a continuous-paging RESULT Rows page not flagged last (isLastFrame); the constructor fills the pool with exactly 1..N once each; an accepted request has an id in 1..N (automatic) or its own id (explicit) that no unanswered request uses, the id leaves the pool, nothing else changes; exhaustion and duplicate explicit ids are refused; a refused request leaves table and pool unchanged (this obligation failed on the original tree: the borrowed id leaked - fixed); the final frame of a response frees the entry and, when accepted without error, returns an automatically assigned id to the pool; non-final frames and unknown ids change nothing",
			"NOT covered: that the release after the final frame cannot fail (needs the cardinality link len = sum of counts), the close() loop, N > 32767",
		}})
	reg(&PropSpec{ID: "C10", Title: "Responses reach exactly the request with the same stream id (sequential mechanism)", DesignRef: "DESIGN.md §11 C10",
		Groups: []Group{
			{Funcs: `^client\.(isLastFrame|newInFlightRequest)$|^\(\*client\.inFlightRequest\)\.(close|onFrameReceived|startTimeout)$`, OnlyCt: true, AbstractConc: true,
				Classes: []string{"post", "pre", "frame", "cover", "panic", "alloc", "nil", "typeassert"}},
			{Funcs: `^\(\*client\.inFlightRequestsHandler\)\.(onOutgoingFrameEnqueued|onIncomingFrameReceived)$`, OnlyCt: true, AbstractConc: true,
				Classes: []string{"post", "pre", "frame", "cover", "panic"}, OnlyObl: `:post:c10_|:cover:`},
			{Funcs: `^\(\*client\.CqlClientConnection\)\.processIncomingFrame$`, OnlyCt: true, AbstractConc: true,
				Classes: []string{"post", "pre", "frame", "cover", "panic", "nil", "typeassert", "auto-inv-init", "auto-inv-step", "auto-decreases"}},
		},
		Assume: []string{
			"SEQUENTIAL MECHANISM ONLY: each statement is about one call of one operation executed without interference; 'whatever the order in which the peer answers and however many requests are outstanding' is the induction over sequences of operations that the invariants poolInv, tableInv, chansDistinct and reqInv carry (each operation assumes and re-establishes them); interleavings of concurrent senders with the receive loop, the role of the locks, timer goroutines and close() racing with delivery are NOT decided (go statements ignored, sync primitives no-ops) - that part of C10 stays with C16's reason",
			"a request's channel of frames is modelled as a bounded multiset of frame references (chancount(ch, f)); FIFO order is a property of Go channels, not of this code: 'pages in arrival order' is each page being queued by the call that received it, plus Go's channel semantics (TRUSTED)",
			"proved: the request handed to the sender is the one registered under the frame's stream id, a fresh object with its own fresh empty channel; an incoming frame is queued exactly once on the channel of the request registered under the frame's id, whose streamId field equals that id, and the frame condition (assigns) shows no other request, channel or table entry changes; a frame with an unknown id is refused and changes nothing; the last frame (every frame except a continuous-paging RESULT Rows page not flagged last) completes the request - done, channel closed, no error - and any other frame leaves it registered and open; a refused delivery queues nothing; closing a request keeps queued frames readable and the first error",
			"proved: EVENT frames go to the event channel (queued once if there is room, dropped otherwise) and change no table entry, no request and no request channel; every other frame goes to the in-flight handler and never to the event channel",
			"ASSUMED: registered event handlers (user callbacks) do not touch the connection's table or channels; a context.CancelFunc affects only its context; ctx.Done() is a signal channel never sent on; zerolog calls have no effect; frames handed to these functions are well formed as the frame decoder produces them (header, body, message present; RESULT opcode carries a RESULT message; ERROR opcode an ERROR message); the event channel is no request's channel (made by the connection constructor)",
			"ASSUMED: the receive path (readFrame) calls processIncomingFrame with the table invariants in force (they are established by the handler's constructor and re-established by every handler operation; the call site itself is not verified)",
			"NOT covered: Send/Receive/ReceiveEvent wrappers, the receive loop, handler close(), timeouts; delivery when the same frame object is received twice is counted by multiplicity",
		}})
}

var lemmaClasses = []string{"post", "pre", "cover", "frame", "inv-init", "inv-step", "unwind"}

func init() {
	vb := BoundedTest{Name: "varint-minimal-twos-complement", PkgDir: "datacodec", File: "bounded/varint_bounded_test.go", Run: "TestGovcBoundedVarint",
		Bound: "writeBigInt/readBigInt against an independent arbitrary-precision reference for every integer in [-70000, 70000] and +-2^k, +-2^k+-1 for k <= 300 (141807 cases)"}
	reg(&PropSpec{ID: "C12", Title: "CQL values are serialized exactly as the specification's formats prescribe (scalar types)", DesignRef: "DESIGN.md §4 C12",
		Groups: []Group{
			{Funcs: `^datacodec\.(write|read)(Int64|Int32|Int16|Int8|Bool|Float32|Float64)$`, OnlyCt: true, Classes: append([]string{"index", "alloc", "nil"}, lemmaClasses...)},
			{Funcs: `^datacodec\.lemmaVarintCanonical$`, OnlyCt: true, Classes: lemmaClasses},
			// [unsigned vint] / [vint] of the duration type: minimal size, prefix bits, big-endian payload, zig-zag
			{Funcs: `^primitive\.((Write|Read|LengthOf)UnsignedVint|(en|de)codeZigZag|WriteVint)$`, OnlyCt: true, Classes: append([]string{"unwind"}, lemmaClasses...)},
			// decimal = [int] scale + varint unscaled; duration = vints months, days, nanoseconds in that order
			{Funcs: `^datacodec\.(writeDecimal|writeDuration)$`, OnlyCt: true, Classes: append([]string{"index", "alloc", "nil"}, lemmaClasses...)},
		},
		Tests:   []BoundedTest{vb},
		Bounded: []string{"varint (minimal two's complement of arbitrary-precision integers): the byte-level contracts of writeBigInt/readBigInt are ASSUMED by the proof and checked only by the bounded execution listed under bounded_executions"},
		Assume: []string{
			"covered in addition: [unsigned vint] and zig-zag [vint] of the duration type (minimal size against the specification's rule, prefix bits and big-endian payload on the write side for all 2^64 values; on the read side the value for encodings of up to 6 bytes and the byte count for all)",
			"covered in addition (write side): decimal = 4-byte big-endian scale followed by the varint bytes of the unscaled value; duration = three zig-zag vints in the order months, days, nanoseconds (total length, and position and value of each component that fits one byte)",
			"NOT covered: date offset, inet, uuid byte formats, the read side of decimal and duration, and the collection/tuple/UDT framing (their contracts are not written)",
		}})
	reg(&PropSpec{ID: "C11", Title: "CQL value codecs round-trip every value (scalar numeric and boolean codecs)", DesignRef: "DESIGN.md §4 C11",
		Groups: []Group{
			{Funcs: `^datacodec\.lemma(Bigint|Int|Smallint|Tinyint|Float|Double|Boolean|Varint)RoundTrip$`, OnlyCt: true, Classes: lemmaClasses},
			// varint accepts every Go integer representation: each becomes the big integer of the same value and back
			{Funcs: `^datacodec\.convert(To|From)BigInt$`, OnlyCt: true, Classes: lemmaClasses},
		},
		Tests:   []BoundedTest{vb},
		Bounded: []string{"the varint round trip rests on the assumed contracts of writeBigInt/readBigInt (bounded execution only)"},
		Assume: []string{
			"covered: bigint/counter, int, smallint, tinyint (each for all ten Go integer representations, value and destination of the same type), float, double (float32 and float64, NaN excluded), boolean (bool and all integer representations), varint (*big.Int, values modelled as 256-bit integers)",
			"NOT covered: lists, sets, maps, tuples and UDTs as Go values (they reach user data only through package reflect, outside the verifier's subset); decimal, duration, date, time, timestamp, uuid, inet, blob and varchar codecs; mixed source/destination representations; the preferred Go type of untyped destinations",
		}})
	reg(&PropSpec{ID: "C14", Title: "NULL is preserved and distinguishable in CQL value codecs (scalar numeric and boolean codecs)", DesignRef: "DESIGN.md §4 C14",
		Groups: []Group{
			{Funcs: `^datacodec\.lemma(Bigint|Int|Smallint|Tinyint|Float|Double|Boolean)RoundTrip$`, OnlyCt: true, Classes: lemmaClasses},
			{Funcs: `^datacodec\.read(Int64|Int32|Int16|Int8|Bool|Float32|Float64)$`, OnlyCt: true, Classes: lemmaClasses},
			// the dispatchers themselves: a NULL is delivered as the zero value with no error whatever the accompanying
			// value is (the date codec hands over a shifted value), a nil source is reported as NULL
			{Funcs: `^datacodec\.convert(To|From)(Int(8|16|32|64)|Float(32|64)|Int32Date|Int64Time|Int64Timestamp|BigInt)$`, OnlyCt: true, Classes: lemmaClasses},
		},
		Assume: []string{
			"covered: encoding an untyped nil gives a NULL that decodes with wasNull set, no error, and the destination zeroed, for the integer, float and boolean codecs and every integer/float destination; zero-length input is NULL for every fixed-width reader",
			"NOT covered: typed nil pointers/slices/maps as sources, NULL elements inside collections/tuples/UDTs and their refusal in protocol v2 (reflection), the remaining scalar codecs",
		}})
}

// Select returns the functions (keys) of a property with their class filters.
func (p *PropSpec) Select(w *World) map[string]*Group {
	out := map[string]*Group{}
	for gi := range p.Groups {
		g := &p.Groups[gi]
		re := regexp.MustCompile(g.Funcs)
		var ex *regexp.Regexp
		if g.Except != "" {
			ex = regexp.MustCompile(g.Except)
		}
		for _, k := range w.ListFuncs() {
			if !re.MatchString(k) || (ex != nil && ex.MatchString(k)) {
				continue
			}
			if g.Share && (usesReflect(w.Funcs[k]) || w.Funcs[k].Synthetic != "") {
				continue
			}
			if g.OnlyCt {
				ct := w.Contracts[k]
				if ct == nil || !hasProp(ct, p.ID) {
					continue
				}
			}
			if _, dup := out[k]; !dup {
				out[k] = g
			}
		}
	}
	return out
}

func hasProp(ct *Contract, id string) bool {
	for _, p := range ct.Props {
		if p == id {
			return true
		}
	}
	return false
}

// keepsObl: class filter plus the per-property split of clauses on functions shared by two properties.
func (g *Group) keepsObl(ob *Obligation) bool {
	if !g.keeps(ob.Class) {
		return false
	}
	if g.SkipObl != "" && regexp.MustCompile(g.SkipObl).MatchString(ob.Name) {
		return false
	}
	if g.OnlyObl != "" && (ob.Class == "post" || ob.Class == "cover") && !regexp.MustCompile(g.OnlyObl).MatchString(ob.Name) {
		return false
	}
	return true
}

func (g *Group) keeps(class string) bool {
	if g.Classes == nil {
		return true
	}
	for _, c := range g.Classes {
		if c == class {
			return true
		}
	}
	return false
}

// closures of selected functions are verified with their parents' selection
func parentKey(k string) string {
	if i := strings.Index(k, "$"); i >= 0 {
		return k[:i]
	}
	return k
}
