package vc

import (
	"strconv"
	"fmt"
	"go/ast"
	"go/constant"
	"go/token"
	"go/types"
	"math/big"
	"strings"

	"golang.org/x/tools/go/ssa"

	"verif/internal/smt"
)

const mathW = 128

// EV is the value of a contract expression.
type EV struct {
	V     Val
	Math  bool     // V.Terms[0] is a mathematical integer (signed bit-vector of width >= mathW)
	Lit   *big.Int // untyped integer constant
	IsNil bool
	Type  types.Type // for type arguments
}

type evalCtx struct {
	e        *Engine
	f        *frame
	st       *State // current ("new") state
	old      *State // entry state, for old()
	override map[ssa.Value]Val
	results  []Val
	bound    map[string]EV
	at       *ssa.BasicBlock // program point for resolving locals (loop header), nil at function exit
	pkg      *types.Package
}

func pkgPathOf(fn *ssa.Function) string {
	for fn.Parent() != nil {
		fn = fn.Parent()
	}
	if fn.Pkg != nil {
		return fn.Pkg.Pkg.Path()
	}
	if recv := fn.Signature.Recv(); recv != nil {
		t := recv.Type()
		if p, ok := t.(*types.Pointer); ok {
			t = p.Elem()
		}
		if n, ok := types.Unalias(t).(*types.Named); ok && n.Obj().Pkg() != nil {
			return n.Obj().Pkg().Path()
		}
	}
	return ""
}

func typesPkgOf(fn *ssa.Function) *types.Package {
	for fn.Parent() != nil {
		fn = fn.Parent()
	}
	if fn.Pkg != nil {
		return fn.Pkg.Pkg
	}
	if recv := fn.Signature.Recv(); recv != nil {
		t := recv.Type()
		if p, ok := t.(*types.Pointer); ok {
			t = p.Elem()
		}
		if n, ok := types.Unalias(t).(*types.Named); ok {
			return n.Obj().Pkg()
		}
	}
	return nil
}

// evalClause evaluates a boolean clause at a loop header / back edge (locals visible).
func (e *Engine) evalClause(f *frame, cl *Clause, st *State, override map[ssa.Value]Val, at *ssa.BasicBlock) *smt.Term {
	ctx := &evalCtx{e: e, f: f, st: st, old: f.entry, override: override, bound: map[string]EV{}, pkg: typesPkgOf(f.fn), at: at}
	e.bindLets(ctx)
	return ctx.boolean(cl.Expr, cl.Text)
}

func (e *Engine) evalMeasure(f *frame, cl *Clause, st *State, override map[ssa.Value]Val, at *ssa.BasicBlock) *smt.Term {
	ctx := &evalCtx{e: e, f: f, st: st, old: f.entry, override: override, bound: map[string]EV{}, pkg: typesPkgOf(f.fn), at: at}
	e.bindLets(ctx)
	ev := ctx.eval(cl.Expr)
	return ctx.toMath(ev)
}

func (e *Engine) bindLets(ctx *evalCtx) {
	if ctx.f.ct == nil {
		return
	}
	for _, l := range ctx.f.ct.Lets {
		sub := *ctx
		sub.st = ctx.f.entry
		sub.override = nil
		ctx.bound[l.Name] = sub.eval(l.Expr)
	}
}

func (c *evalCtx) fail(format string, args ...interface{}) {
	panic(fmt.Errorf("contract expression: "+format, args...))
}

func (c *evalCtx) boolean(x Expr, text string) *smt.Term {
	ev := c.eval(x)
	if len(ev.V.Terms) != 1 || ev.V.Terms[0].Sort != smt.Bool {
		c.fail("%q is not boolean", text)
	}
	return ev.V.Terms[0]
}

func boolEV(t *smt.Term) EV { return EV{V: Val{Typ: types.Typ[types.Bool], Terms: []*smt.Term{t}}} }

func (c *evalCtx) toMath(ev EV) *smt.Term {
	cx := c.e.C
	switch {
	case ev.Lit != nil:
		return cx.BVLit(ev.Lit, mathW)
	case ev.Math:
		if ev.V.Terms[0].Sort.Width() >= mathW {
			return ev.V.Terms[0]
		}
		return cx.Extend(ev.V.Terms[0], mathW, true)
	case ev.V.Typ != nil && isInteger(ev.V.Typ):
		return cx.Extend(ev.V.Terms[0], mathW, isSigned(ev.V.Typ))
	}
	c.fail("cannot take mathematical value of %v", ev.V.Typ)
	return nil
}

func mathEV(t *smt.Term) EV { return EV{V: Val{Terms: []*smt.Term{t}}, Math: true} }

func (c *evalCtx) eval(x Expr) EV {
	e := c.e
	cx := e.C
	switch n := x.(type) {
	case *EInt:
		return EV{Lit: n.V}
	case *EStr:
		return EV{V: Val{Typ: types.Typ[types.String], Terms: []*smt.Term{e.strLit(n.S)}}}
	case *EIdent:
		return c.ident(n.Name)
	case *ETypeArg:
		return EV{Type: c.resolveType(n.Text)}
	case *EUn:
		if n.Op == "*" {
			// either a dereference or a pointer type argument
			if id, ok := n.X.(*EIdent); ok {
				if t := c.tryType(id.Name); t != nil {
					return EV{Type: types.NewPointer(t)}
				}
			}
			if sel, ok := n.X.(*ESel); ok {
				if t := c.tryType(exprText(sel)); t != nil {
					return EV{Type: types.NewPointer(t)}
				}
			}
			p := c.eval(n.X)
			if !isPointer(p.V.Typ) {
				c.fail("dereference of non-pointer")
			}
			el := types.Unalias(p.V.Typ).Underlying().(*types.Pointer).Elem()
			return EV{V: e.load(c.st, p.V, el)}
		}
		a := c.eval(n.X)
		switch n.Op {
		case "!":
			return boolEV(cx.Not(a.V.Terms[0]))
		case "-":
			if a.Lit != nil {
				return EV{Lit: new(big.Int).Neg(a.Lit)}
			}
			if a.Math {
				return mathEV(cx.Op("bvneg", a.V.Terms[0].Sort, a.V.Terms[0]))
			}
			if isFloat(a.V.Typ) {
				return EV{V: Val{Typ: a.V.Typ, Terms: []*smt.Term{cx.Op("fp.neg", a.V.Terms[0].Sort, a.V.Terms[0])}}}
			}
			return EV{V: Val{Typ: a.V.Typ, Terms: []*smt.Term{cx.Op("bvneg", a.V.Terms[0].Sort, a.V.Terms[0])}}}
		case "^":
			if a.Lit != nil {
				return EV{Lit: new(big.Int).Not(a.Lit)}
			}
			return EV{V: Val{Typ: a.V.Typ, Terms: []*smt.Term{cx.Op("bvnot", a.V.Terms[0].Sort, a.V.Terms[0])}}}
		}
	case *EBin:
		return c.binary(n)
	case *ESel:
		return c.selector(n)
	case *EIndex:
		return c.index(n)
	case *ECall:
		return c.callExpr(n)
	case *ETypeQuant:
		var set []types.Type
		for _, k := range typeSets[n.Set] {
			set = append(set, types.Typ[k])
		}
		if set == nil {
			c.fail("unknown type set %q", n.Set)
		}
		var cs []*smt.Term
		saved, had := c.bound[n.Var]
		for _, t := range set {
			c.bound[n.Var] = EV{Type: t}
			cs = append(cs, c.boolean(n.Body, "forallT body"))
		}
		if had {
			c.bound[n.Var] = saved
		} else {
			delete(c.bound, n.Var)
		}
		return boolEV(cx.And(cs...))
	case *EQuant:
		t := c.resolveType(n.Type)
		sorts := e.comps(t)
		if len(sorts) != 1 {
			c.fail("quantified variable of composite type")
		}
		bv := cx.BoundVar(n.Var, sorts[0])
		saved, had := c.bound[n.Var]
		c.bound[n.Var] = EV{V: Val{Typ: t, Terms: []*smt.Term{bv}}}
		e.noAssume++
		body := c.boolean(n.Body, "quantifier body")
		e.noAssume--
		if had {
			c.bound[n.Var] = saved
		} else {
			delete(c.bound, n.Var)
		}
		pats := triggerTerms(body, bv)
		// a trigger select(a, off + k) is fragile (solvers normalise the sum); quantify over the absolute index
		// j = off + k instead, so that the trigger is select(a, j)
		if len(pats) == 1 && pats[0].Op == "select" {
			idx := pats[0].Args[1]
			if idx.Op == "bvadd" && len(idx.Args) == 2 && idx.Args[1] == bv && !termHas(idx.Args[0], bv) {
				j := cx.BoundVar(n.Var+".abs", bv.Sort)
				body = cx.Subst(body, bv, cx.Op("bvsub", bv.Sort, j, idx.Args[0]))
				body = cx.Subst(body, cx.Op("bvadd", bv.Sort, idx.Args[0], cx.Op("bvsub", bv.Sort, j, idx.Args[0])), j)
				bv = j
				pats = triggerTerms(body, bv)
			}
		}
		if n.Forall && len(pats) == 2 && pats[0].Op == "select" && pats[1].Op == "select" {
			// a fact relating a byte stream to a slice or string, "stream[a+k] == other[b+k]": orient it so that chains
			// of such facts instantiate without loops - facts about WRITTEN bytes are keyed on the stream position
			// (trigger stream[j]), facts about READ bytes on the other side (trigger other[j]); both quantify over the
			// absolute index of the keyed read
			var key *smt.Term
			r0, r1 := e.selectRole[pats[0].ID()], e.selectRole[pats[1].ID()]
			switch {
			case r0 == "w" && r1 == "":
				key = pats[0]
			case r1 == "w" && r0 == "":
				key = pats[1]
			case r0 == "r" && r1 == "":
				key = pats[1]
			case r1 == "r" && r0 == "":
				key = pats[0]
			}
			if key != nil {
				if v := c.keyedVariant(body, bv, n.Var, key); v != nil {
					return boolEV(v)
				}
			}
		}
		if len(pats) == 0 {
			// every candidate trigger contains an ite or a connective (array or offset terms merged over paths): name
			// those subterms by fresh constants (definitional equalities) and quantify over the absolute index of each
			// array read, one copy of the fact per read
			if vs := c.namedTriggerVariants(body, bv, n.Var); len(vs) > 0 {
				if n.Forall {
					return boolEV(cx.And(vs...))
				}
			}
		}
		if n.Forall {
			return boolEV(cx.ForallPat([]*smt.Term{bv}, body, pats...))
		}
		return boolEV(cx.Not(cx.ForallPat([]*smt.Term{bv}, cx.Not(body), pats...)))
	}
	c.fail("unsupported expression %T", x)
	return EV{}
}

var typeSets = map[string][]types.BasicKind{
	"ints":   {types.Int, types.Int8, types.Int16, types.Int32, types.Int64, types.Uint, types.Uint8, types.Uint16, types.Uint32, types.Uint64},
	"sints":  {types.Int, types.Int8, types.Int16, types.Int32, types.Int64},
	"uints":  {types.Uint, types.Uint8, types.Uint16, types.Uint32, types.Uint64},
	"floats": {types.Float32, types.Float64},
}

func (c *evalCtx) binary(n *EBin) EV {
	e := c.e
	cx := e.C
	switch n.Op {
	case "&&":
		return boolEV(cx.And(c.boolean(n.L, "&& operand"), c.boolean(n.R, "&& operand")))
	case "||":
		return boolEV(cx.Or(c.boolean(n.L, "|| operand"), c.boolean(n.R, "|| operand")))
	case "==>":
		return boolEV(cx.Implies(c.boolean(n.L, "==> operand"), c.boolean(n.R, "==> operand")))
	case "<==>":
		return boolEV(cx.Eq(c.boolean(n.L, "<==> operand"), c.boolean(n.R, "<==> operand")))
	}
	a, b := c.eval(n.L), c.eval(n.R)
	// nil comparisons
	if a.IsNil || b.IsNil {
		if a.IsNil && !b.IsNil {
			a, b = b, a
		}
		var isnil *smt.Term
		if a.IsNil {
			isnil = cx.True()
		} else {
			isnil = cx.Eq(a.V.Terms[0], cx.IntLit(0))
		}
		switch n.Op {
		case "==":
			return boolEV(isnil)
		case "!=":
			return boolEV(cx.Not(isnil))
		}
		c.fail("nil in %s", n.Op)
	}
	// both literal
	if a.Lit != nil && b.Lit != nil {
		r := new(big.Int)
		switch n.Op {
		case "+":
			return EV{Lit: r.Add(a.Lit, b.Lit)}
		case "-":
			return EV{Lit: r.Sub(a.Lit, b.Lit)}
		case "*":
			return EV{Lit: r.Mul(a.Lit, b.Lit)}
		case "/":
			return EV{Lit: r.Quo(a.Lit, b.Lit)}
		case "%":
			return EV{Lit: r.Rem(a.Lit, b.Lit)}
		case "<<":
			return EV{Lit: r.Lsh(a.Lit, uint(b.Lit.Int64()))}
		case ">>":
			return EV{Lit: r.Rsh(a.Lit, uint(b.Lit.Int64()))}
		case "&":
			return EV{Lit: r.And(a.Lit, b.Lit)}
		case "|":
			return EV{Lit: r.Or(a.Lit, b.Lit)}
		case "^":
			return EV{Lit: r.Xor(a.Lit, b.Lit)}
		case "==":
			return boolEV(cx.BoolLit(a.Lit.Cmp(b.Lit) == 0))
		case "!=":
			return boolEV(cx.BoolLit(a.Lit.Cmp(b.Lit) != 0))
		case "<":
			return boolEV(cx.BoolLit(a.Lit.Cmp(b.Lit) < 0))
		case "<=":
			return boolEV(cx.BoolLit(a.Lit.Cmp(b.Lit) <= 0))
		case ">":
			return boolEV(cx.BoolLit(a.Lit.Cmp(b.Lit) > 0))
		case ">=":
			return boolEV(cx.BoolLit(a.Lit.Cmp(b.Lit) >= 0))
		}
	}
	// mathematical integers
	if a.Math || b.Math {
		x, y := c.toMath(a), c.toMath(b)
		w := x.Sort.Width()
		if y.Sort.Width() > w {
			w = y.Sort.Width()
		}
		x, y = cx.Extend(x, w, true), cx.Extend(y, w, true)
		s := smt.BV(w)
		switch n.Op {
		case "+":
			return mathEV(cx.Op("bvadd", s, x, y))
		case "-":
			return mathEV(cx.Op("bvsub", s, x, y))
		case "*":
			return mathEV(cx.Op("bvmul", s, x, y))
		case "/":
			return mathEV(cx.Op("bvsdiv", s, x, y))
		case "%":
			return mathEV(cx.Op("bvsrem", s, x, y))
		case "==":
			return boolEV(cx.Eq(x, y))
		case "!=":
			return boolEV(cx.Not(cx.Eq(x, y)))
		case "<":
			return boolEV(cx.Op("bvslt", smt.Bool, x, y))
		case "<=":
			return boolEV(cx.Op("bvsle", smt.Bool, x, y))
		case ">":
			return boolEV(cx.Op("bvsgt", smt.Bool, x, y))
		case ">=":
			return boolEV(cx.Op("bvsge", smt.Bool, x, y))
		}
		c.fail("operator %s on mathematical integers", n.Op)
	}
	// literal with typed operand: convert literal
	if a.Lit != nil {
		a = c.litTo(a.Lit, b.V.Typ, n.Op == "<<" || n.Op == ">>")
	}
	if b.Lit != nil {
		b = c.litTo(b.Lit, a.V.Typ, false)
	}
	tk := map[string]token.Token{"+": token.ADD, "-": token.SUB, "*": token.MUL, "/": token.QUO, "%": token.REM, "&": token.AND, "|": token.OR,
		"^": token.XOR, "&^": token.AND_NOT, "<<": token.SHL, ">>": token.SHR, "==": token.EQL, "!=": token.NEQ, "<": token.LSS, "<=": token.LEQ,
		">": token.GTR, ">=": token.GEQ}[n.Op]
	rt := a.V.Typ
	switch tk {
	case token.EQL, token.NEQ, token.LSS, token.LEQ, token.GTR, token.GEQ:
		rt = types.Typ[types.Bool]
	}
	if a.V.Typ == nil || b.V.Typ == nil {
		c.fail("untyped operand in %s", n.Op)
	}
	if tk != token.SHL && tk != token.SHR && len(a.V.Terms) == 1 && len(b.V.Terms) == 1 && a.V.Terms[0].Sort != b.V.Terms[0].Sort {
		c.fail("operands of %s have different sorts: %s (%v) vs %s (%v); use Z(...) for mixed-width comparisons", n.Op, a.V.Terms[0].Sort, a.V.Typ, b.V.Terms[0].Sort, b.V.Typ)
	}
	e.quiet++
	defer func() { e.quiet-- }()
	return EV{V: e.binopVals(c.st, tk, a.V, b.V, a.V.Typ, b.V.Typ, rt, "")}
}

func (c *evalCtx) litTo(l *big.Int, t types.Type, shiftLeft bool) EV {
	cx := c.e.C
	switch {
	case t == nil:
		return EV{Lit: l}
	case isInteger(t):
		return EV{V: Val{Typ: t, Terms: []*smt.Term{cx.BVLit(l, bitWidth(t))}}}
	case isFloat(t):
		f, _ := new(big.Float).SetInt(l).Float64()
		return EV{V: Val{Typ: t, Terms: []*smt.Term{c.e.floatLit(f, bitWidth64(t))}}}
	}
	c.fail("integer literal used with %v", t)
	return EV{}
}

func (c *evalCtx) ident(name string) EV {
	e := c.e
	if ev, ok := c.bound[name]; ok {
		return ev
	}
	switch name {
	case "nil":
		return EV{IsNil: true}
	case "true":
		return boolEV(e.C.True())
	case "false":
		return boolEV(e.C.False())
	}
	f := c.f
	// results
	if c.results != nil {
		res := f.sig.Results()
		if name == "result" && res.Len() == 1 {
			return EV{V: c.results[0]}
		}
		if strings.HasPrefix(name, "result") {
			var k int
			if _, err := fmt.Sscanf(name, "result%d", &k); err == nil && k < res.Len() {
				return EV{V: c.results[k]}
			}
		}
		for i := 0; i < res.Len(); i++ {
			if res.At(i).Name() == name {
				return EV{V: c.results[i]}
			}
		}
	}
	// parameters (entry values: parameters are SSA values, never reassigned in SSA form)
	for i, pn := range f.pnames {
		if pn == name && i < len(f.params) {
			return EV{V: f.params[i]}
		}
	}
	if name == "self" && f.sig.Recv() != nil && len(f.params) > 0 {
		return EV{V: f.params[0]}
	}
	if strings.HasPrefix(name, "arg") {
		var k int
		if _, err := fmt.Sscanf(name, "arg%d", &k); err == nil {
			if f.sig.Recv() != nil {
				k++
			}
			if k < len(f.params) {
				return EV{V: f.params[k]}
			}
		}
	}
	if c.results != nil && name == "err" {
		res := f.sig.Results()
		if n := res.Len(); n > 0 && types.Identical(res.At(n-1).Type(), errorType()) {
			return EV{V: c.results[n-1]}
		}
	}
	// locals
	if v, ok := c.local(name); ok {
		return EV{V: v}
	}
	// package level
	if c.pkg != nil {
		if obj := c.pkg.Scope().Lookup(name); obj != nil {
			return c.object(obj)
		}
	}
	if t := c.tryType(name); t != nil {
		return EV{Type: t}
	}
	c.fail("unknown identifier %q in %v", name, f.fn)
	return EV{}
}

func (c *evalCtx) object(obj types.Object) EV {
	e := c.e
	switch o := obj.(type) {
	case *types.Const:
		if o.Val().Kind() == constant.Int {
			bi, _ := new(big.Int).SetString(o.Val().ExactString(), 10)
			if b, ok := o.Type().Underlying().(*types.Basic); ok && b.Info()&types.IsUntyped != 0 {
				return EV{Lit: bi}
			}
			return EV{V: Val{Typ: o.Type(), Terms: []*smt.Term{e.C.BVLit(bi, bitWidth(o.Type()))}}}
		}
		if o.Val().Kind() == constant.String {
			t := o.Type()
			return EV{V: Val{Typ: t, Terms: []*smt.Term{e.strLit(constant.StringVal(o.Val()))}}}
		}
		if o.Val().Kind() == constant.Bool {
			return boolEV(e.C.BoolLit(constant.BoolVal(o.Val())))
		}
	case *types.Var:
		// package-level variable: load its current value
		for _, sp := range e.W.Prog.AllPackages() {
			if sp.Pkg == o.Pkg() {
				if g, ok := sp.Members[o.Name()].(*ssa.Global); ok {
					return EV{V: e.load(c.st, e.globalAddr(g), o.Type())}
				}
			}
		}
	case *types.TypeName:
		return EV{Type: o.Type()}
	}
	c.fail("unsupported object %v", obj)
	return EV{}
}

// local resolves a source-level local variable name at a loop header (c.at): the header's phi of that name,
// else the value the name had before the loop (last definition dominating the header), else an address-taken
// local's current content.
func (c *evalCtx) local(name string) (Val, bool) {
	f := c.f
	get := func(v ssa.Value) Val {
		if c.override != nil {
			if ov, ok := c.override[v]; ok {
				return ov
			}
		}
		return f.get(v)
	}
	if c.at != nil {
		for _, in := range c.at.Instrs {
			phi, ok := in.(*ssa.Phi)
			if !ok {
				break
			}
			if phi.Comment == name {
				return get(phi), true
			}
		}
	}
	// rangeindexK: the hidden index of the range loop with ordinal K (for invariants of a nested loop that must name
	// the index of an enclosing "for _, x := range" loop)
	if strings.HasPrefix(name, "rangeindex") && len(name) > len("rangeindex") {
		if k, err := strconv.Atoi(name[len("rangeindex"):]); err == nil {
			for hb, li := range f.loops {
				if li.ordinal != k {
					continue
				}
				for _, in := range hb.Instrs {
					if phi, ok := in.(*ssa.Phi); ok && phi.Comment == "rangeindex" {
						return get(phi), true
					}
				}
			}
		}
	}
	var best ssa.Value
	if f.fn == nil {
		return Val{}, false
	}
	for _, b := range f.fn.Blocks {
		for _, in := range b.Instrs {
			switch x := in.(type) {
			case *ssa.DebugRef:
				if id, ok := x.Expr.(*ast.Ident); ok && id.Name == name && !x.IsAddr {
					if _, done := f.vals[x.X]; !done {
						if _, isConst := x.X.(*ssa.Const); !isConst {
							continue
						}
					}
					if c.at != nil {
						// must be defined before the loop
						if def, isInst := x.X.(ssa.Instruction); isInst && !(def.Block().Dominates(c.at) && def.Block() != c.at) {
							continue
						}
						if !(b.Dominates(c.at) && b != c.at) {
							continue
						}
					}
					best = x.X
				}
			case *ssa.Alloc:
				if x.Comment == name {
					if pv, done := f.vals[x]; done {
						return c.e.load(c.st, pv, x.Type().(*types.Pointer).Elem()), true
					}
				}
			}
		}
	}
	if best == nil {
		return Val{}, false
	}
	return get(best), true
}

func (c *evalCtx) tryType(name string) types.Type {
	defer func() { recover() }()
	return c.resolveType(name)
}

func (c *evalCtx) resolveType(s string) types.Type {
	s = strings.TrimSpace(s)
	if ev, ok := c.bound[s]; ok && ev.Type != nil {
		return ev.Type
	}
	switch {
	case strings.HasPrefix(s, "*"):
		return types.NewPointer(c.resolveType(s[1:]))
	case strings.HasPrefix(s, "[]"):
		return types.NewSlice(c.resolveType(s[2:]))
	}
	if obj := types.Universe.Lookup(s); obj != nil {
		if tn, ok := obj.(*types.TypeName); ok {
			return tn.Type()
		}
	}
	if i := strings.Index(s, "."); i > 0 {
		pn, tn := s[:i], s[i+1:]
		if c.pkg != nil {
			for _, imp := range c.e.W.allTypesPkgs() {
				if imp.Name() == pn || imp.Path() == pn {
					if obj, ok := imp.Scope().Lookup(tn).(*types.TypeName); ok {
						return obj.Type()
					}
				}
			}
		}
	} else if c.pkg != nil {
		if obj, ok := c.pkg.Scope().Lookup(s).(*types.TypeName); ok {
			return obj.Type()
		}
	}
	panic(fmt.Errorf("contract expression: unknown type %q", s))
}

func (w *World) allTypesPkgs() []*types.Package {
	var out []*types.Package
	for _, sp := range w.Prog.AllPackages() {
		out = append(out, sp.Pkg)
	}
	return out
}

func (c *evalCtx) selector(n *ESel) EV {
	e := c.e
	// package-qualified name?
	if id, ok := n.X.(*EIdent); ok {
		if _, isBound := c.bound[id.Name]; !isBound {
			for _, imp := range e.W.allTypesPkgs() {
				if imp.Name() == id.Name && (c.pkg == nil || imp == c.pkg || importsPkg(c.pkg, imp) || true) {
					if _, shadow := c.tryLocalOrParam(id.Name); shadow {
						break
					}
					if obj := imp.Scope().Lookup(n.Field); obj != nil {
						return c.object(obj)
					}
				}
			}
		}
	}
	x := c.eval(n.X)
	t := x.V.Typ
	if t == nil {
		c.fail("selector .%s on untyped value", n.Field)
	}
	if pt, ok := types.Unalias(t).Underlying().(*types.Pointer); ok {
		st, ok := types.Unalias(pt.Elem()).Underlying().(*types.Struct)
		if !ok {
			c.fail("selector .%s on pointer to non-struct %v", n.Field, t)
		}
		idx := fieldIndex(st, n.Field)
		if idx < 0 {
			c.fail("no field %s in %v", n.Field, pt.Elem())
		}
		off, cnt := e.fieldRange(pt.Elem(), idx)
		if x.V.Ptr == nil {
			e.wrapPtr(&x.V)
		}
		np := *x.V.Ptr
		np.Off += off
		np.N = cnt
		p := Val{Typ: types.NewPointer(st.Field(idx).Type()), Terms: x.V.Terms, Ptr: &np}
		return EV{V: e.load(c.st, p, st.Field(idx).Type())}
	}
	if st, ok := types.Unalias(t).Underlying().(*types.Struct); ok {
		idx := fieldIndex(st, n.Field)
		if idx < 0 {
			c.fail("no field %s in %v", n.Field, t)
		}
		off, cnt := e.fieldRange(t, idx)
		v := Val{Typ: st.Field(idx).Type(), Terms: x.V.Terms[off : off+cnt]}
		e.wrapPtr(&v)
		return EV{V: v}
	}
	c.fail("selector .%s on %v", n.Field, t)
	return EV{}
}

func (c *evalCtx) tryLocalOrParam(name string) (Val, bool) {
	for i, pn := range c.f.pnames {
		if pn == name && i < len(c.f.params) {
			return c.f.params[i], true
		}
	}
	return Val{}, false
}

func importsPkg(p, q *types.Package) bool {
	for _, i := range p.Imports() {
		if i == q {
			return true
		}
	}
	return false
}

func fieldIndex(st *types.Struct, name string) int {
	for i := 0; i < st.NumFields(); i++ {
		if st.Field(i).Name() == name {
			return i
		}
	}
	return -1
}

func (c *evalCtx) index(n *EIndex) EV {
	e := c.e
	cx := e.C
	x := c.eval(n.X)
	i := c.eval(n.I)
	switch u := types.Unalias(x.V.Typ).Underlying().(type) {
	case *types.Slice:
		var idx *smt.Term
		if i.Lit != nil {
			idx = cx.BVLit(i.Lit, 64)
		} else if i.Math {
			idx = cx.Extend(i.V.Terms[0], 64, true)
		} else {
			idx = cx.Extend(i.V.Terms[0], 64, isSigned(i.V.Typ))
		}
		el := u.Elem()
		p := Val{Typ: types.NewPointer(el), Terms: []*smt.Term{x.V.Terms[0]},
			Ptr: &PtrInfo{Root: el, IsElem: true, Elem: cx.Op("bvadd", smt.BV(64), x.V.Terms[1], idx), N: len(e.comps(el))}}
		return EV{V: e.load(c.st, p, el)}
	case *types.Array:
		var idx *smt.Term
		if i.Lit != nil {
			idx = cx.BVLit(i.Lit, 64)
		} else {
			idx = cx.Extend(i.V.Terms[0], 64, i.Math || isSigned(i.V.Typ))
		}
		v := Val{Typ: u.Elem()}
		for _, a := range x.V.Terms {
			v.Terms = append(v.Terms, cx.Select(a, idx))
		}
		return EV{V: v}
	case *types.Map:
		key := i
		if i.Lit != nil {
			key = c.litTo(i.Lit, u.Key(), false)
		}
		v, _ := e.mapGet(c.st, x.V, key.V.Terms[0])
		return EV{V: v}
	case *types.Basic:
		if u.Info()&types.IsString != 0 {
			var idx *smt.Term
			if i.Lit != nil {
				idx = cx.BVLit(i.Lit, 64)
			} else {
				idx = cx.Extend(i.V.Terms[0], 64, i.Math || isSigned(i.V.Typ))
			}
			return EV{V: Val{Typ: types.Typ[types.Uint8], Terms: []*smt.Term{cx.Select(cx.App("gs.bytes", bytesInner, x.V.Terms[0]), idx)}}}
		}
	}
	c.fail("index on %v", x.V.Typ)
	return EV{}
}

func (c *evalCtx) callExpr(n *ECall) EV {
	e := c.e
	cx := e.C
	if id, ok := n.Fn.(*EIdent); ok {
		switch id.Name {
		case "old":
			sub := *c
			sub.st = c.old
			sub.override = nil
			return sub.eval(n.Args[0])
		case "Z":
			return mathEV(c.toMath(c.eval(n.Args[0])))
		case "len":
			a := c.eval(n.Args[0])
			switch types.Unalias(a.V.Typ).Underlying().(type) {
			case *types.Slice:
				return EV{V: Val{Typ: types.Typ[types.Int], Terms: []*smt.Term{a.V.Terms[2]}}}
			case *types.Map:
				return EV{V: Val{Typ: types.Typ[types.Int], Terms: []*smt.Term{e.mapLen(c.st, a.V)}}}
			case *types.Basic:
				return EV{V: Val{Typ: types.Typ[types.Int], Terms: []*smt.Term{e.strLen(a.V.Terms[0])}}}
			case *types.Array:
				return EV{Lit: big.NewInt(types.Unalias(a.V.Typ).Underlying().(*types.Array).Len())}
			}
			c.fail("len of %v", a.V.Typ)
		case "cap":
			a := c.eval(n.Args[0])
			return EV{V: Val{Typ: types.Typ[types.Int], Terms: []*smt.Term{a.V.Terms[3]}}}
		case "InRange":
			// InRange(T or typed value, z): z lies in the value range of the integer type
			a := c.eval(n.Args[0])
			t := a.Type
			if t == nil {
				t = a.V.Typ
			}
			z := c.toMath(c.eval(n.Args[1]))
			lo, hi := intRange(t)
			zw := z.Sort.Width()
			return boolEV(cx.And(cx.Op("bvsle", smt.Bool, cx.BVLit(lo, zw), z), cx.Op("bvsle", smt.Bool, z, cx.BVLit(hi, zw))))
		case "fresh":
			a := c.eval(n.Args[0])
			return boolEV(cx.Op(">=", smt.Bool, a.V.Terms[0], c.old.Alloc))
		case "allocated": // allocated(x): the object x exists in the state the clause is evaluated in (its reference is below the allocation counter)
			a := c.eval(n.Args[0])
			return boolEV(cx.Op("<", smt.Bool, a.V.Terms[0], c.st.Alloc))
		case "ite":
			cond := c.boolean(n.Args[0], "ite condition")
			a, b := c.eval(n.Args[1]), c.eval(n.Args[2])
			if a.Math || b.Math || (a.Lit != nil && b.Lit != nil) {
				return mathEV(cx.Ite(cond, c.toMath(a), c.toMath(b)))
			}
			if a.Lit != nil {
				a = c.litTo(a.Lit, b.V.Typ, false)
			}
			if b.Lit != nil {
				b = c.litTo(b.Lit, a.V.Typ, false)
			}
			return EV{V: e.mergeVals([]*smt.Term{cond, cx.Not(cond)}, []Val{a.V, b.V})}
		case "implements": // implements(x, I): the dynamic type of the interface value x implements interface I (x non-nil)
			a := c.eval(n.Args[0])
			t := c.eval(n.Args[1]).Type
			if t == nil || !isInterface(t) || !isInterface(a.V.Typ) {
				c.fail("implements needs an interface value and an interface type")
			}
			return boolEV(cx.And(cx.Not(cx.Eq(a.V.Terms[0], cx.IntLit(0))), e.implements(a.V.Terms[0], t)))
		case "typeis":
			a := c.eval(n.Args[0])
			t := c.eval(n.Args[1]).Type
			if t == nil {
				c.fail("typeis needs a type")
			}
			if a.V.Typ != nil && !isInterface(a.V.Typ) {
				// a value of concrete static type (an interface-level contract evaluated in an implementer, where
				// self is the receiver): decided by type identity
				return boolEV(cx.BoolLit(types.Identical(types.Unalias(a.V.Typ), types.Unalias(t))))
			}
			return boolEV(cx.Eq(a.V.Terms[0], cx.IntLit(int64(e.typeTag(t)))))
		case "unbox":
			a := c.eval(n.Args[0])
			t := c.eval(n.Args[1]).Type
			if a.V.Typ != nil && !isInterface(a.V.Typ) {
				if types.Identical(types.Unalias(a.V.Typ), types.Unalias(t)) {
					return a
				}
				// guarded by a false typeis: any value of the asked type will do
				fv := e.fresh("unbox.other", t)
				e.wrapPtr(&fv)
				return EV{V: fv}
			}
			return EV{V: e.unbox(c.st, a.V, t)}
		case "written":
			a := c.eval(n.Args[0])
			// stream invariant: 0 <= count <= size bound (the models assume it at every write; contracts used in place
			// of models must not lose it)
			return EV{V: Val{Typ: types.Typ[types.Int], Terms: []*smt.Term{e.writerCount(c.st, streamKey(a.V))}}}
		case "chanlen", "chancap", "chanclosed", "chanhas", "chancount": // sequential channel model (chan.go)
			a := c.eval(n.Args[0])
			ci, ok := e.chanInfoOf(a.V.Typ)
			if !ok {
				c.fail("%s: not a modelled channel type", id.Name)
			}
			cnt, ln, cp, cls := e.chanArrs(c.st, ci)
			ref := a.V.Terms[0]
			switch id.Name {
			case "chanlen":
				e.chanValid(c.st, ci, ref)
				return EV{V: Val{Typ: types.Typ[types.Int], Terms: []*smt.Term{cx.Select(ln, ref)}}}
			case "chancap":
				e.chanValid(c.st, ci, ref)
				return EV{V: Val{Typ: types.Typ[types.Int], Terms: []*smt.Term{cx.Select(cp, ref)}}}
			case "chanclosed":
				return boolEV(cx.Select(cls, ref))
			}
			x := c.eval(n.Args[1])
			if x.Lit != nil {
				x = c.litTo(x.Lit, ci.elem, false)
			}
			if id.Name == "chancount" {
				return EV{V: Val{Typ: types.Typ[types.Int], Terms: []*smt.Term{cx.Select(cx.Select(cnt, ref), x.V.Terms[0])}}}
			}
			return boolEV(cx.Op("bvsgt", smt.Bool, cx.Select(cx.Select(cnt, ref), x.V.Terms[0]), cx.BVLit64(0, 64)))
		case "valof": // valof(x): the value of x as data - contents and length of a slice, entries of a map, x itself otherwise
			a := c.eval(n.Args[0])
			return EV{V: Val{Typ: nil, Terms: e.valueOf(c.st, a.V)}}
		case "tokval": // tokval(x, i, y): the payload of token i of stream x, in the shape of valof(y)
			a := c.eval(n.Args[0])
			iv := c.eval(n.Args[1])
			var idx *smt.Term
			if iv.Lit != nil {
				idx = cx.BVLit(iv.Lit, 64)
			} else {
				idx = cx.Extend(iv.V.Terms[0], 64, iv.Math || isSigned(iv.V.Typ))
			}
			tok := cx.Select(cx.Select(e.tokArr(c.st, tokT), streamKey(a.V)), idx)
			shape := e.valueOf(c.st, c.eval(n.Args[2]).V)
			var ts []*smt.Term
			for k, t := range shape {
				ts = append(ts, cx.App(fmt.Sprintf("tok.v%d.%s", k, sortTag(t.Sort)), t.Sort, tok))
			}
			return EV{V: Val{Typ: nil, Terms: ts}}
		case "tokn", "tokpos": // token view (tokens.go): tokens written to / next token to read from a stream
			a := c.eval(n.Args[0])
			name := tokN
			if id.Name == "tokpos" {
				name = tokR
			}
			return EV{V: Val{Typ: types.Typ[types.Int], Terms: []*smt.Term{cx.Select(e.tokArr(c.st, name), streamKey(a.V))}}}
		case "tokkind", "tokbv", "tokstr", "tokwin", "toklen", "toknil": // accessors of token i of a stream
			a := c.eval(n.Args[0])
			iv := c.eval(n.Args[1])
			var idx *smt.Term
			if iv.Lit != nil {
				idx = cx.BVLit(iv.Lit, 64)
			} else {
				idx = cx.Extend(iv.V.Terms[0], 64, iv.Math || isSigned(iv.V.Typ))
			}
			tok := cx.Select(cx.Select(e.tokArr(c.st, tokT), streamKey(a.V)), idx)
			switch id.Name {
			case "tokkind":
				return EV{V: Val{Typ: types.Typ[types.Int], Terms: []*smt.Term{cx.App("tok.kind", smt.BV(64), tok)}}}
			case "tokbv":
				return EV{V: Val{Typ: types.Typ[types.Uint64], Terms: []*smt.Term{cx.App("tok.bv", smt.BV(64), tok)}}}
			case "tokstr":
				return EV{V: Val{Typ: types.Typ[types.String], Terms: []*smt.Term{cx.App("tok.str", smt.Str, tok)}}}
			case "tokwin":
				return EV{V: Val{Typ: nil, Terms: []*smt.Term{cx.App("tok.win", bytesInner, tok)}}}
			case "toklen":
				return EV{V: Val{Typ: types.Typ[types.Int], Terms: []*smt.Term{cx.App("tok.len", smt.BV(64), tok)}}}
			}
			return boolEV(cx.App("tok.nil", smt.Bool, tok))
		case "bigexact64", "bigexact32": // the *big.Float argument is exactly representable as a float64 / float32
			a := c.eval(n.Args[0])
			return boolEV(cx.App("bigfloat.exact"+id.Name[len("bigexact"):], smt.Bool, a.V.Terms[0]))
		case "inmemory": // inmemory(x): x's dynamic type is *bytes.Buffer or *bytes.Reader (reads of available bytes and writes cannot fail)
			a := c.eval(n.Args[0])
			if !isInterface(a.V.Typ) {
				ts := typeStr(a.V.Typ)
				if ts == "*bytes.Buffer" || ts == "*bytes.Reader" {
					return boolEV(cx.True())
				}
				return boolEV(cx.False())
			}
			return boolEV(cx.Or(cx.Eq(a.V.Terms[0], cx.IntLit(int64(e.typeTag(bytesPtrType(e, "Buffer"))))), cx.Eq(a.V.Terms[0], cx.IntLit(int64(e.typeTag(bytesPtrType(e, "Reader")))))))
		case "pos":
			a := c.eval(n.Args[0])
			e.readerState(c.st, streamKey(a.V)) // stream invariant: 0 <= pos <= avail <= size bound
			return EV{V: Val{Typ: types.Typ[types.Int], Terms: []*smt.Term{e.ghostGet(c.st, gPos, streamKey(a.V))}}}
		case "avail":
			a := c.eval(n.Args[0])
			e.readerState(c.st, streamKey(a.V))
			return EV{V: Val{Typ: types.Typ[types.Int], Terms: []*smt.Term{e.ghostGet(c.st, pAvail, streamKey(a.V))}}}
		case "wbyte": // wbyte(w, off): byte written at absolute offset off
			a := c.eval(n.Args[0])
			off := cx.Extend(c.toMath(c.eval(n.Args[1])), 64, true)
			wt := cx.Select(e.ghostGet(c.st, gWData, streamKey(a.V)), off)
			e.markSelectRole(wt, "w")
			return EV{V: Val{Typ: types.Typ[types.Uint8], Terms: []*smt.Term{wt}}}
		case "rbyte": // rbyte(r, off): input byte at absolute offset off
			a := c.eval(n.Args[0])
			off := cx.Extend(c.toMath(c.eval(n.Args[1])), 64, true)
			rt := cx.Select(e.ghostGet(c.st, pData, streamKey(a.V)), off)
			e.markSelectRole(rt, "r")
			return EV{V: Val{Typ: types.Typ[types.Uint8], Terms: []*smt.Term{rt}}}
		case "has":
			m := c.eval(n.Args[0])
			k := c.eval(n.Args[1])
			mt := types.Unalias(m.V.Typ).Underlying().(*types.Map)
			if k.Lit != nil {
				k = c.litTo(k.Lit, mt.Key(), false)
			}
			return boolEV(e.mapHas(c.st, m.V, k.V.Terms[0]))
		case "declared":
			// declared(x): x equals one of the constants of its (named) type declared in that type's package
			a := c.eval(n.Args[0])
			named, ok := types.Unalias(a.V.Typ).(*types.Named)
			if !ok {
				c.fail("declared() needs a value of a named type")
			}
			var alts []*smt.Term
			sc := named.Obj().Pkg().Scope()
			for _, nm := range sc.Names() {
				k, ok := sc.Lookup(nm).(*types.Const)
				if !ok || !types.Identical(k.Type(), named) {
					continue
				}
				kv := c.object(k)
				alts = append(alts, cx.Eq(a.V.Terms[0], kv.V.Terms[0]))
			}
			if len(alts) == 0 {
				c.fail("type %v has no declared constants", named)
			}
			return boolEV(cx.Or(alts...))
		case "isliteral":
			// isliteral(s): s is one of the string literals of the program text seen so far (not a formatted string)
			a := c.eval(n.Args[0])
			var alts []*smt.Term
			for _, lit := range e.strLitOrder {
				if lit != "" {
					alts = append(alts, cx.Eq(a.V.Terms[0], e.strLits[lit]))
				}
			}
			return boolEV(cx.Or(alts...))
		case "same":
			a, b := c.eval(n.Args[0]), c.eval(n.Args[1])
			if a.Lit != nil {
				a = c.litTo(a.Lit, b.V.Typ, false)
			}
			if b.Lit != nil {
				b = c.litTo(b.Lit, a.V.Typ, false)
			}
			var cs []*smt.Term
			for i := range a.V.Terms {
				cs = append(cs, cx.Eq(a.V.Terms[i], b.V.Terms[i]))
			}
			return boolEV(cx.And(cs...))
		case "f32bits", "f64bits":
			a := c.eval(n.Args[0])
			w := 32
			t := types.Typ[types.Uint32]
			if id.Name == "f64bits" {
				w, t = 64, types.Typ[types.Uint64]
			}
			return EV{V: e.floatBits(c.st, a.V.Terms[0], w, t)}
		case "twosbytes": // the minimal two's-complement big-endian byte string of a mathematical integer
			z := cx.Extend(c.toMath(c.eval(n.Args[0])), bigW, true)
			return EV{V: Val{Typ: nil, Terms: []*smt.Term{cx.App("big.twosbytes", bytesInner, z)}}}
		case "twoslen":
			z := cx.Extend(c.toMath(c.eval(n.Args[0])), bigW, true)
			l := cx.App("big.twoslen", smt.BV(64), z)
			return EV{V: Val{Typ: types.Typ[types.Int], Terms: []*smt.Term{l}}}
		case "twoswin": // the canonical byte string (window) of the minimal two's-complement encoding of an integer
			z := cx.Extend(c.toMath(c.eval(n.Args[0])), bigW, true)
			return EV{V: Val{Typ: nil, Terms: []*smt.Term{cx.App("bytes.win", bytesInner, cx.App("big.twosbytes", bytesInner, z), cx.BVLit64(0, 64), cx.App("big.twoslen", smt.BV(64), z))}}}
		case "twosval": // the integer a byte string denotes in two's complement; inverse of twosbytes
			w := c.eval(n.Args[0]).V.Terms[0]
			if w.Op == "bytes.win" && len(w.Args) == 3 {
				if v, ok := w.Args[1].BVValue(); ok && v.Sign() == 0 {
					w = w.Args[0]
				}
			}
			if w.Op == "big.twosbytes" && len(w.Args) == 1 {
				return mathEV(w.Args[0])
			}
			return mathEV(cx.App("big.twosval", smt.BV(bigW), w))
		case "bytesof": // the byte array behind a slice (content term), for slices starting at offset 0
			a := c.eval(n.Args[0])
			arr := e.heapArr(c.st, elemName(types.Typ[types.Uint8], 0), smt.Array(smt.Int, bytesInner))
			return EV{V: Val{Typ: nil, Terms: []*smt.Term{cx.Select(arr, a.V.Terms[0])}}}
		case "isnan":
			a := c.eval(n.Args[0])
			return boolEV(cx.Op("fp.isNaN", smt.Bool, a.V.Terms[0]))
		case "f32frombits":
			a := c.eval(n.Args[0])
			return EV{V: Val{Typ: types.Typ[types.Float32], Terms: []*smt.Term{cx.Op("(_ to_fp 8 24)", smt.F32, a.V.Terms[0])}}}
		case "f64frombits":
			a := c.eval(n.Args[0])
			return EV{V: Val{Typ: types.Typ[types.Float64], Terms: []*smt.Term{cx.Op("(_ to_fp 11 53)", smt.F64, a.V.Terms[0])}}}
		case "strnum":
			a := c.eval(n.Args[0])
			return mathEV(cx.App("gs.num", smt.BV(mathW), a.V.Terms[0]))
		case "bigval":
			a := c.eval(n.Args[0])
			return mathEV(e.bigVal(c.st, a.V.Terms[0]))
		case "rwin": // rwin(r, off, n): the n input bytes at absolute offset off, as a canonical byte string
			a := c.eval(n.Args[0])
			off := cx.Extend(c.toMath(c.eval(n.Args[1])), 64, true)
			ln := cx.Extend(c.toMath(c.eval(n.Args[2])), 64, true)
			return EV{V: Val{Typ: nil, Terms: []*smt.Term{e.canonWindow(e.ghostGet(c.st, pData, streamKey(a.V)), off, ln)}}}
		case "win": // win(b): the bytes of slice b as a canonical byte string
			a := c.eval(n.Args[0])
			arr := e.heapArr(c.st, elemName(types.Typ[types.Uint8], 0), smt.Array(smt.Int, bytesInner))
			return EV{V: Val{Typ: nil, Terms: []*smt.Term{e.canonWindow(cx.Select(arr, a.V.Terms[0]), a.V.Terms[1], a.V.Terms[2])}}}
		case "lz4valid", "lz4origlen", "lz4orig":
			// the assumed LZ4 block decoding functions, applied to the bytes of a slice
			a := c.eval(n.Args[0])
			arr := e.heapArr(c.st, elemName(types.Typ[types.Uint8], 0), smt.Array(smt.Int, bytesInner))
			w := e.canonWindow(cx.Select(arr, a.V.Terms[0]), a.V.Terms[1], a.V.Terms[2])
			switch id.Name {
			case "lz4valid":
				return boolEV(cx.App("lz4.valid", smt.Bool, w, a.V.Terms[2]))
			case "lz4origlen":
				return EV{V: Val{Typ: types.Typ[types.Int], Terms: []*smt.Term{cx.App("lz4.origlen", smt.BV(64), w, a.V.Terms[2])}}}
			}
			return EV{V: Val{Typ: nil, Terms: []*smt.Term{cx.App("lz4.orig", bytesInner, w, a.V.Terms[2])}}}
		case "crc32of": // crc32of(state, bytestring, n): hash/crc32.Update's state function
			st0 := c.eval(n.Args[0])
			w := c.eval(n.Args[1])
			ln := cx.Extend(c.toMath(c.eval(n.Args[2])), 64, true)
			return EV{V: Val{Typ: types.Typ[types.Uint32], Terms: []*smt.Term{cx.App("crc32.update", smt.BV(32), st0.V.Terms[0], w.V.Terms[0], ln)}}}
		case "encLen":
			// encLen(codec, msg, version): the encoded length of msg under codec - an uninterpreted function of the
			// codec and message identities (valid while the message is not modified) and of the version
			cd, m, v := c.eval(n.Args[0]), c.eval(n.Args[1]), c.eval(n.Args[2])
			return EV{V: Val{Typ: types.Typ[types.Int], Terms: []*smt.Term{cx.App("msg.enclen", smt.BV(64), cd.V.Terms[0], cd.V.Terms[1], m.V.Terms[0], m.V.Terms[1], v.V.Terms[0])}}}
		case "abstractLen":
			// abstractLen("name", x): an uninterpreted length of x (used for notations whose length loops are not yet under proof)
			nm := n.Args[0].(*EStr).S
			a := c.eval(n.Args[1])
			if len(n.Args) > 2 {
				// abstractLen("name", x, y, ...): a function of all components of all arguments
				var ts []*smt.Term
				ts = append(ts, a.V.Terms...)
				for _, ax := range n.Args[2:] {
					ts = append(ts, c.eval(ax).V.Terms...)
				}
				return EV{V: Val{Typ: types.Typ[types.Int], Terms: []*smt.Term{cx.App(fmt.Sprintf("abslen%d.%s", len(ts), nm), smt.BV(64), ts...)}}}
			}
			return EV{V: Val{Typ: types.Typ[types.Int], Terms: []*smt.Term{cx.App("abslen."+nm, smt.BV(64), a.V.Terms[0])}}}
		case "fold":
			return c.foldExpr(n)
		case "isnil":
			a := c.eval(n.Args[0])
			return boolEV(cx.Eq(a.V.Terms[0], cx.IntLit(0)))
		}
		// conversions T(x)
		if t := c.tryType(id.Name); t != nil && len(n.Args) == 1 {
			if _, isLocal := c.tryLocalOrParam(id.Name); !isLocal {
				return c.convertTo(t, c.eval(n.Args[0]))
			}
		}
		// spec function
		if sf, ok := e.W.Specs[id.Name]; ok {
			return c.applySpec(sf, n.Args)
		}
		// package-level function of the repo
		if c.pkg != nil {
			if obj, ok := c.pkg.Scope().Lookup(id.Name).(*types.Func); ok {
				return c.callRepo(e.W.Prog.FuncValue(obj), nil, n.Args)
			}
		}
	}
	if sel, ok := n.Fn.(*ESel); ok {
		// pkg.Func(...) or value.Method(...)
		if id, ok := sel.X.(*EIdent); ok {
			if _, isBound := c.bound[id.Name]; !isBound {
				if _, isParam := c.tryLocalOrParam(id.Name); !isParam {
					for _, imp := range e.W.allTypesPkgs() {
						if imp.Name() == id.Name {
							if sf, ok := e.W.Specs[sel.Field]; ok && imp.Scope().Lookup(sel.Field) == nil {
								return c.applySpec(sf, n.Args)
							}
							if obj, ok := imp.Scope().Lookup(sel.Field).(*types.Func); ok {
								return c.callRepo(e.W.Prog.FuncValue(obj), nil, n.Args)
							}
							if tn, ok := imp.Scope().Lookup(sel.Field).(*types.TypeName); ok && len(n.Args) == 1 {
								return c.convertTo(tn.Type(), c.eval(n.Args[0]))
							}
						}
					}
				}
			}
		}
		recv := c.eval(sel.X)
		if recv.V.Typ != nil && isInterface(recv.V.Typ) && len(n.Args) == 0 {
			it := types.Unalias(recv.V.Typ).Underlying().(*types.Interface)
			for i := 0; i < it.NumMethods(); i++ {
				if m := it.Method(i); m.Name() == sel.Field {
					rt := m.Type().(*types.Signature).Results().At(0).Type()
					if v, ok := e.constMethodFor(recv.V.Typ, m, recv.V, rt); ok {
						return EV{V: v}
					}
					c.fail("interface method %s is not a constant function of the dynamic type", sel.Field)
				}
			}
		}
		if recv.V.Typ != nil {
			ms := e.W.Prog.MethodSets.MethodSet(recv.V.Typ)
			for i := 0; i < ms.Len(); i++ {
				if ms.At(i).Obj().Name() == sel.Field {
					fn := e.W.Prog.MethodValue(ms.At(i))
					return c.callRepo(fn, &recv.V, n.Args)
				}
			}
		}
		c.fail("unknown method %s", sel.Field)
	}
	c.fail("unsupported call %s", exprText(n.Fn))
	return EV{}
}

func (c *evalCtx) convertTo(t types.Type, a EV) EV {
	cx := c.e.C
	if a.Lit != nil {
		return c.litTo(a.Lit, t, false)
	}
	if a.Math {
		if !isInteger(t) {
			c.fail("conversion of mathematical integer to %v", t)
		}
		return EV{V: Val{Typ: t, Terms: []*smt.Term{cx.Extend(a.V.Terms[0], bitWidth(t), true)}}}
	}
	c.e.quiet++
	defer func() { c.e.quiet-- }()
	return EV{V: c.e.convert(c.st, a.V, a.V.Typ, t, "")}
}

// callRepo evaluates a (pure, loop-free) repository function inside a contract expression by executing its body.
func (c *evalCtx) callRepo(fn *ssa.Function, recv *Val, argx []Expr) EV {
	e := c.e
	if fn == nil {
		c.fail("function not found")
	}
	var args []Val
	if recv != nil {
		args = append(args, *recv)
	}
	sig := fn.Signature
	for i, ax := range argx {
		a := c.eval(ax)
		pt := sig.Params().At(i).Type()
		if a.Lit != nil {
			a = c.litTo(a.Lit, pt, false)
		}
		args = append(args, a.V)
	}
	info := e.W.fnInfo(fn)
	lct := e.W.Contracts[FuncKey(fn)]
	if lct != nil && lct.Pure {
		expand := false
		if c.f != nil && c.f.engine != nil {
			if top := topFrame(c.f); top.ct != nil && top.ct.Expand[FuncKey(fn)] {
				expand = true
			}
		}
		if !expand {
			var as []*smt.Term
			for _, a := range args {
				as = append(as, a.Terms...)
			}
			rt := fn.Signature.Results().At(0).Type()
			v := Val{Typ: rt}
			for k, so := range e.comps(rt) {
				v.Terms = append(v.Terms, e.C.App(fmt.Sprintf("fn.%s.%d.%d", FuncKey(fn), 0, k), so, as...))
			}
			return EV{V: v}
		}
	}
	if lct != nil && (len(lct.Assumes) > 0 || len(lct.Ensures) > 0) && !lct.Inline && (info.hasLoop || fn.Blocks == nil) {
		// a function with loops is used through its contract
		e.quiet++
		scratch := c.st.clone()
		scratch.Reach = e.C.True()
		fr := c.f
		if fr == nil || fr.engine == nil {
			fr = &frame{engine: e}
		}
		v := e.applyContract(fr, scratch, lct, fn, fn.Signature, args, resultType(fn.Signature), "", FuncKey(fn))
		e.quiet--
		n := len(e.comps(fn.Signature.Results().At(0).Type()))
		r := Val{Typ: fn.Signature.Results().At(0).Type(), Terms: v.Terms[:n]}
		e.wrapPtr(&r)
		return EV{V: r}
	}
	if fn.Blocks == nil || info.rejects || (info.hasLoop && (lct == nil || len(lct.Unroll) == 0)) {
		c.fail("function %s cannot be used in a contract expression (no body / loops without unroll)", fn)
	}
	e.quiet++
	defer func() { e.quiet-- }()
	scratch := c.st.clone()
	scratch.Reach = e.C.True()
	var parent *frame
	if c.f != nil && c.f.engine != nil && c.f.order != nil {
		parent = c.f
	}
	rets, _, _ := e.execFunc(fn, args, nil, scratch, parent, lct)
	if len(rets) == 0 {
		c.fail("function %s returns nothing", fn)
	}
	return EV{V: rets[0]}
}

func (c *evalCtx) applySpec(sf *SpecFunc, argx []Expr) EV {
	if len(argx) != len(sf.Params) {
		c.fail("spec %s expects %d arguments", sf.Name, len(sf.Params))
	}
	sub := *c
	sub.bound = map[string]EV{}
	for k, v := range c.bound {
		sub.bound[k] = v
	}
	for i, p := range sf.Params {
		a := c.eval(argx[i])
		if a.Lit != nil && sf.PTypes[i] != "mathint" && sf.PTypes[i] != "" {
			a = c.litTo(a.Lit, c.resolveType(sf.PTypes[i]), false)
		}
		if sf.PTypes[i] == "mathint" && !a.Math {
			a = mathEV(c.toMath(a))
		}
		sub.bound[p] = a
	}
	return sub.eval(sf.Body)
}

func intRange(t types.Type) (*big.Int, *big.Int) {
	w := uint(bitWidth(t))
	one := big.NewInt(1)
	if isSigned(t) {
		hi := new(big.Int).Sub(new(big.Int).Lsh(one, w-1), one)
		lo := new(big.Int).Neg(new(big.Int).Lsh(one, w-1))
		return lo, hi
	}
	return big.NewInt(0), new(big.Int).Sub(new(big.Int).Lsh(one, w), one)
}

// triggerTerms picks instantiation patterns for a quantified body: the innermost array reads (and applications of
// uninterpreted functions) that mention the bound variable.
func triggerTerms(body, bv *smt.Term) []*smt.Term {
	var out []*smt.Term
	seen := map[int]bool{}
	var has func(t *smt.Term) bool
	memo := map[int]bool{}
	has = func(t *smt.Term) bool {
		if v, ok := memo[t.ID()]; ok {
			return v
		}
		r := t == bv
		for _, a := range t.Args {
			if has(a) {
				r = true
			}
		}
		memo[t.ID()] = r
		return r
	}
	var walk func(t *smt.Term) bool // reports whether a trigger was found inside t
	walk = func(t *smt.Term) bool {
		if !has(t) {
			return false
		}
		found := false
		for _, a := range t.Args {
			if walk(a) {
				found = true
			}
		}
		if found {
			return true
		}
		if t.Op == "select" && !seen[t.ID()] {
			ok := true
			// patterns must not contain logical connectives or ite
			var clean func(x *smt.Term) bool
			clean = func(x *smt.Term) bool {
				switch x.Op {
				case "ite", "and", "or", "not", "=>", "=":
					return false
				}
				for _, a := range x.Args {
					if !clean(a) {
						return false
					}
				}
				return true
			}
			ok = clean(t)
			if ok {
				seen[t.ID()] = true
				out = append(out, t)
				return true
			}
		}
		return false
	}
	walk(body)
	if len(out) > 3 {
		out = out[:3]
	}
	return out
}

// keyedVariant rewrites  forall k. body  into  forall j. body[k := j - base]  with the single trigger key[.. j ..],
// where key = select(arr, base + k) (or select(arr, k)).
func (c *evalCtx) keyedVariant(body, bv *smt.Term, vname string, key *smt.Term) *smt.Term {
	cx := c.e.C
	arr, idx := key.Args[0], key.Args[1]
	if termHas(arr, bv) {
		return nil
	}
	var base *smt.Term
	switch {
	case idx == bv:
		return cx.ForallPat([]*smt.Term{bv}, body, key)
	case idx.Op == "bvadd" && len(idx.Args) == 2 && idx.Args[1] == bv && !termHas(idx.Args[0], bv):
		base = idx.Args[0]
	case idx.Op == "bvadd" && len(idx.Args) == 2 && idx.Args[0] == bv && !termHas(idx.Args[1], bv):
		base = idx.Args[1]
	default:
		return nil
	}
	j := cx.BoundVar(vname+".abs", bv.Sort)
	b2 := cx.Subst(body, key, cx.Select(arr, j))
	b2 = cx.Subst(b2, bv, cx.Op("bvsub", bv.Sort, j, base))
	return cx.ForallPat([]*smt.Term{j}, b2, cx.Select(arr, j))
}

// namedTriggerVariants: see the call site.
func (c *evalCtx) namedTriggerVariants(body, bv *smt.Term, vname string) []*smt.Term {
	e := c.e
	cx := e.C
	// innermost selects whose index mentions bv and whose array does not
	var cands []*smt.Term
	seen := map[int]bool{}
	var walk func(t *smt.Term)
	walk = func(t *smt.Term) {
		if seen[t.ID()] || !termHas(t, bv) {
			return
		}
		seen[t.ID()] = true
		if t.Op == "select" && len(t.Args) == 2 && !termHas(t.Args[0], bv) && termHas(t.Args[1], bv) {
			cands = append(cands, t)
			return
		}
		for _, a := range t.Args {
			walk(a)
		}
	}
	walk(body)
	if len(cands) == 0 || len(cands) > 3 {
		return nil
	}
	var unclean func(x *smt.Term) bool
	unclean = func(x *smt.Term) bool {
		switch x.Op {
		case "ite", "and", "or", "not", "=>", "=":
			return true
		}
		for _, a := range x.Args {
			if unclean(a) {
				return true
			}
		}
		return false
	}
	name := func(t *smt.Term, hint string) *smt.Term {
		if !unclean(t) {
			return t
		}
		k := cx.Fresh(hint, t.Sort)
		e.assumeGlobal(cx.Eq(k, t))
		return k
	}
	var out []*smt.Term
	for _, sel := range cands {
		arr, idx := sel.Args[0], sel.Args[1]
		b2 := body
		A := name(arr, "q.arr")
		var base *smt.Term
		switch {
		case idx == bv:
		case idx.Op == "bvadd" && len(idx.Args) == 2 && idx.Args[1] == bv && !termHas(idx.Args[0], bv):
			base = idx.Args[0]
		case idx.Op == "bvadd" && len(idx.Args) == 2 && idx.Args[0] == bv && !termHas(idx.Args[1], bv):
			base = idx.Args[1]
		default:
			continue
		}
		if base == nil {
			b2 = cx.Subst(b2, sel, cx.Select(A, bv))
			out = append(out, cx.ForallPat([]*smt.Term{bv}, b2, cx.Select(A, bv)))
			continue
		}
		B := name(base, "q.base")
		j := cx.BoundVar(vname+".abs", bv.Sort)
		b2 = cx.Subst(b2, sel, cx.Select(A, j))
		b2 = cx.Subst(b2, bv, cx.Op("bvsub", bv.Sort, j, B))
		out = append(out, cx.ForallPat([]*smt.Term{j}, b2, cx.Select(A, j)))
	}
	return out
}

func termHas(t, v *smt.Term) bool {
	return termHasMemo(t, v, map[int]bool{})
}

// terms are DAGs: without the memo the walk is exponential in the sharing depth
func termHasMemo(t, v *smt.Term, memo map[int]bool) bool {
	if t == v {
		return true
	}
	if r, ok := memo[t.ID()]; ok {
		return r
	}
	memo[t.ID()] = false
	for _, a := range t.Args {
		if termHasMemo(a, v, memo) {
			memo[t.ID()] = true
			return true
		}
	}
	return false
}

// foldExpr evaluates fold(f, s, t) = sum over k < t of f(s[k]) (in int arithmetic), as an uninterpreted function of the slice's
// contents and t, and instantiates its two defining equations at t:  fold(f,s,0) = 0  and, for 0 < t <= len(s),
// fold(f,s,t) = fold(f,s,t-1) + Z(f(s[t-1])).
func (c *evalCtx) foldExpr(n *ECall) EV {
	e := c.e
	cx := e.C
	if len(n.Args) < 3 {
		c.fail("fold(f, s, t, extra...)")
	}
	// fold(f, s, t, x1, ..., xk) = sum over i < t of f(s[i], x1, ..., xk): the extra arguments are parameters of the
	// per-element function (a version, a flag) and part of the fold's identity
	var extraTerms []*smt.Term
	extraTag := ""
	for k, xa := range n.Args[3:] {
		xv := c.eval(xa)
		if xv.Lit != nil || xv.V.Typ == nil {
			c.fail("fold: extra argument %d must be a typed value", k)
		}
		extraTerms = append(extraTerms, xv.V.Terms...)
		extraTag += "." + sortTag(smt.Sort(typeStr(xv.V.Typ)))
	}
	// the per-element function: a name of the current package / a spec function, or pkg.Name (the fold is identified by
	// the bare name, so a fold stated in another package's contract is the same fold)
	var fexpr Expr = n.Args[0]
	fid, ok := n.Args[0].(*EIdent)
	if !ok {
		sel, isSel := n.Args[0].(*ESel)
		if !isSel {
			c.fail("fold: first argument must name a function")
		}
		fid = &EIdent{Name: sel.Field}
	}
	sv := c.eval(n.Args[1]).V
	sl, ok := types.Unalias(sv.Typ).Underlying().(*types.Slice)
	if !ok {
		c.fail("fold: second argument must be a slice")
	}
	t := cx.Extend(c.toMath(c.eval(n.Args[2])), 64, true)
	el := sl.Elem()
	var inner []*smt.Term
	for k, so := range e.comps(el) {
		arr := e.heapArr(c.st, elemName(el, k), smt.Array(smt.Int, smt.Array(smt.BV(64), so)))
		inner = append(inner, cx.Select(arr, sv.Terms[0]))
	}
	name := "fold." + fid.Name + "." + sortTag(smt.Sort(typeStr(el))) + extraTag
	app := func(idx *smt.Term) *smt.Term {
		args := append(append([]*smt.Term{}, inner...), sv.Terms[1], idx)
		args = append(args, extraTerms...)
		return cx.App(name, smt.BV(64), args...)
	}
	res := app(t)
	if e.noAssume == 0 {
		one := cx.BVLit64(1, 64)
		prev := cx.Op("bvsub", smt.BV(64), t, one)
		// element at t-1
		p := Val{Typ: types.NewPointer(el), Terms: []*smt.Term{sv.Terms[0]},
			Ptr: &PtrInfo{Root: el, IsElem: true, Elem: cx.Op("bvadd", smt.BV(64), sv.Terms[1], prev), N: len(e.comps(el))}}
		e.noAssume++
		elem := e.load(c.st, p, el)
		e.noAssume--
		sub := *c
		sub.bound = map[string]EV{}
		for k, v := range c.bound {
			sub.bound[k] = v
		}
		sub.bound["fold$elem"] = EV{V: elem}
		fv := cx.Extend(sub.toMath(sub.eval(&ECall{Fn: fexpr, Args: append([]Expr{&EIdent{Name: "fold$elem"}}, n.Args[3:]...)})), 64, true)
		zero := cx.BVLit64(0, 64)
		e.assume(c.st, cx.Eq(app(zero), zero))
		e.assume(c.st, cx.Implies(cx.And(cx.Op("bvslt", smt.Bool, zero, t), cx.Op("bvsle", smt.Bool, t, sv.Terms[2])),
			cx.Eq(res, cx.Op("bvadd", smt.BV(64), app(prev), fv))))
	}
	// the sum is taken in Go's int arithmetic (wrapping), exactly like the length loops and the byte counter
	return EV{V: Val{Typ: types.Typ[types.Int], Terms: []*smt.Term{res}}}
}
