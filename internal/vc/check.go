package vc

import (
	"math"
	"encoding/json"
	"fmt"
	"os"
	"os/exec"
	"path/filepath"
	"regexp"
	"runtime"
	"sort"
	"strings"
	"sync"
	"time"
)

// KnownFindings is /verif/known_findings.json.
type KnownFindings struct {
	Findings []Finding `json:"findings"`
	Fixed    []string  `json:"fixed"`
}

type Finding struct {
	Property   string `json:"property"`
	Obligation string `json:"obligation"`
	What       string `json:"what"`
}

type CheckOpts struct {
	Prop     string
	Tier     string
	Seed     int64
	VerifDir string
	Timeout  int
	Verbose  bool
	Only     string // development: restrict to functions matching this regexp (evidence says so)
}

type funcOutcome struct {
	key      string
	rejected string
	results  []OblResult
	notes    []string
	models   []string
	vc       *FuncVC
	genS     float64
	solveS   float64
}

// RunCheck decides one property on the loaded world. It prints VIOLATION / KNOWN-FINDING lines, writes evidence
// and returns the process exit code.
func RunCheck(w *World, o CheckOpts) int {
	start := time.Now()
	p := Props[o.Prop]
	if p == nil {
		fmt.Printf("property %s is not claimed by this framework\n", o.Prop)
		return 2
	}
	sel := p.Select(w)
	var keys []string
	for k := range sel {
		if o.Only != "" && !MatchKey(o.Only, k) {
			continue
		}
		keys = append(keys, k)
	}
	sort.Strings(keys)
	timeout := o.Timeout
	if timeout == 0 {
		// almost every obligation is decided in well under a second; the budget only matters for the two CRC-24
		// equivalence lemmas (about 20 s on one solver) and for obligations that fail
		timeout = 120
		if o.Tier == "thorough" {
			timeout = 300
		}
	}
	par := make(chan struct{}, solverSlots())
	smtDir := filepath.Join(os.TempDir(), fmt.Sprintf("govc-%s-%d", o.Prop, os.Getpid()))
	defer os.RemoveAll(smtDir)
	outs := make([]*funcOutcome, len(keys))
	var wg sync.WaitGroup
	for i, k := range keys {
		wg.Add(1)
		go func(i int, k string) {
			defer wg.Done()
			g := sel[k]
			fn := w.Funcs[k]
			ct := w.Contracts[k]
			if g.NoCt {
				ct = nil
			}
			fo := &funcOutcome{key: k}
			outs[i] = fo
			par <- struct{}{}
			t0 := time.Now()
			res := w.GenVC(fn, ct, func(e *Engine) { e.CheckNarrow = g.Narrow; e.OwnCheck = g.Own; e.AbstractConc = g.AbstractConc; e.ShareCheck = g.Share })
			fo.genS = time.Since(t0).Seconds()
			<-par
			fo.vc = res
			if res.Rejected != "" {
				fo.rejected = res.Rejected
				return
			}
			// drop obligations whose class the property does not use
			var kept []*Obligation
			for _, ob := range res.Engine.Obls {
				if g.keepsObl(ob) {
					kept = append(kept, ob)
				}
			}
			res.Engine.Obls = kept
			t1 := time.Now()
			fo.results = res.Engine.Solve(smtDir, timeout, o.Tier == "thorough", par)
			fo.solveS = time.Since(t1).Seconds()
			fo.notes = res.Engine.Notes
			for m := range res.Engine.UsedModels {
				fo.models = append(fo.models, m)
			}
		}(i, k)
	}
	wg.Wait()

	kf := loadKnown(filepath.Join(o.VerifDir, "known_findings.json"))
	known := map[string]Finding{}
	for _, f := range kf.Findings {
		if f.Property == o.Prop {
			known[f.Obligation] = f
		}
	}
	replayDir := filepath.Join(o.VerifDir, "replays")
	os.MkdirAll(replayDir, 0o755)

	total, discharged, violations := 0, 0, 0
	bySolver := map[string]int{}
	byClass := map[string]int{}
	var solverS float64
	var samples []interface{}
	var rejected []string
	var funcs []string
	assume := map[string]bool{}
	var failedNames []string
	knownSeen := map[string]bool{}
	for _, fo := range outs {
		if fo.rejected != "" {
			rejected = append(rejected, fo.key+": "+firstLine(fo.rejected))
			continue
		}
		funcs = append(funcs, fo.key)
		for _, n := range fo.notes {
			assume[n] = true
		}
		for _, m := range fo.models {
			assume["assumed contract of "+m] = true
		}
		for _, r := range fo.results {
			total++
			byClass[r.Class]++
			solverS += r.Seconds
			if r.Seconds > 5 && os.Getenv("GOVC_SLOW") != "" {
				fmt.Printf("SLOW %.1fs %s [%s %s]\n", r.Seconds, r.Name, r.How, r.Solver)
			}
			if r.Status == "discharged" {
				discharged++
				how := r.How
				if r.Solver != "" {
					how = r.Solver
				}
				bySolver[how]++
				if len(samples) < 6 && r.How != "syntactic" && (total%7 == int(o.Seed%7+7)%7 || len(samples) == 0) {
					samples = append(samples, map[string]string{"obligation": r.Name, "class": r.Class, "at": r.Pos, "what": r.Detail, "decided_by": how})
				}
				continue
			}
			if f, ok := known[r.Name]; ok {
				knownSeen[r.Name] = true
				fmt.Printf("KNOWN-FINDING: property=%s %s (%s)\n", o.Prop, f.Obligation, f.What)
				discharged++ // listed, not raised again
				bySolver["known-finding"]++
				continue
			}
			violations++
			failedNames = append(failedNames, r.Name)
			path := filepath.Join(replayDir, sanitizeName(r.Name)+".txt")
			confirmed := false
			if r.Status == "failed" {
				confirmed = w.tryReplay(fo.vc, r, path)
			}
			if !confirmed {
				writeReplayNote(path, o.Prop, r)
				fmt.Printf("VIOLATION property=%s replay=%s obligation=%s status=%s at=%s (%s) no-failing-input-found\n", o.Prop, path, r.Name, r.Status, r.Pos, r.Detail)
			} else {
				fmt.Printf("VIOLATION property=%s replay=%s obligation=%s at=%s (%s)\n", o.Prop, path, r.Name, r.Pos, r.Detail)
			}
		}
	}
	// rejected functions make the property undecidable for them: that is a failure of the check, not silence
	for _, rj := range rejected {
		violations++
		name := strings.SplitN(rj, ":", 2)[0]
		path := filepath.Join(replayDir, sanitizeName(name+":subset")+".txt")
		os.WriteFile(path, []byte("function left the verifier's subset: "+rj+"\n"), 0o644)
		fmt.Printf("VIOLATION property=%s replay=%s obligation=%s:cover:subset (%s) no-failing-input-found\n", o.Prop, path, name, rj)
	}
	// bounded stand-ins: executed, labelled bounded, never counted under discharged
	var boundedOut []map[string]string
	for _, bt := range p.Tests {
		if o.Only != "" {
			break
		}
		ok, out := runBoundedTest(w.Dir, o.VerifDir, bt)
		rec := map[string]string{"name": bt.Name, "bound": bt.Bound, "result": "pass", "kind": "bounded stand-in (exhaustive execution of the real functions over the stated domain), NOT a proof"}
		if m := regexp.MustCompile(`GOVC-BOUNDED cases=(\d+)`).FindStringSubmatch(out); m != nil {
			rec["cases_executed"] = m[1]
		}
		if !ok {
			rec["result"] = "FAIL"
			violations++
			path := filepath.Join(replayDir, sanitizeName("bounded_"+bt.Name)+".txt")
			os.WriteFile(path, []byte("bounded stand-in "+bt.Name+" failed\n"+out), 0o644)
			fmt.Printf("VIOLATION property=%s replay=%s obligation=bounded:%s (bounded stand-in failed on the real code)\n", o.Prop, path, bt.Name)
		}
		boundedOut = append(boundedOut, rec)
	}
	// baseline: contract-level obligations and functions that existed when the baseline was recorded must still exist
	missing := checkBaseline(filepath.Join(o.VerifDir, "baseline", o.Prop+".txt"), outs)
	for _, m := range missing {
		violations++
		path := filepath.Join(replayDir, sanitizeName(m+":missing")+".txt")
		os.WriteFile(path, []byte("obligation recorded in the baseline was not generated on this tree: "+m+"\n"), 0o644)
		fmt.Printf("VIOLATION property=%s replay=%s obligation=%s:cover:missing (baseline obligation no longer generated) no-failing-input-found\n", o.Prop, path, m)
	}
	if total == 0 {
		violations++
		fmt.Printf("VIOLATION property=%s replay=%s obligation=none (no obligations were generated) no-failing-input-found\n", o.Prop, filepath.Join(replayDir, "none.txt"))
	}
	// the functions under check, with whether they carry a written contract and how many obligations each produced
	var fnList []map[string]interface{}
	for _, fo := range outs {
		if fo == nil || fo.rejected != "" {
			continue
		}
		ct := w.Contracts[fo.key]
		kind := "no written contract (generated obligations only)"
		if ct != nil {
			kind = "written contract"
			if len(ct.Assumes) > 0 || ct.AssignsAssumed {
				kind = "written contract with ASSUMED clauses"
			}
		}
		secs := 0.0
		for _, r := range fo.results {
			secs += r.Seconds
		}
		fnList = append(fnList, map[string]interface{}{"function": fo.key, "contract": kind, "obligations": len(fo.results), "solver_seconds": math.Round(secs*100) / 100})
	}
	sort.Slice(fnList, func(i, j int) bool { return fnList[i]["function"].(string) < fnList[j]["function"].(string) })
	var assumptions []string
	for a := range assume {
		assumptions = append(assumptions, a)
	}
	sort.Strings(assumptions)
	assumptions = append(assumptions, p.Assume...)
	assumptions = append(assumptions, "go/packages+go/ssa (x/tools v0.29.0) as the semantics of Go; z3 4.8.12, z3 5.1.0, cvc5 1.0.3; govc itself")
	assumptions = append(assumptions, "in-memory sizes (slice lengths, capacities, stream lengths and positions) are below 2^47; machine integers are bit-vectors of their Go width (wrapping), mathematical integers in contracts are 128-bit (256-bit for big.Int)")
	ev := map[string]interface{}{
		"property_id": o.Prop, "tier": o.Tier, "seed": o.Seed, "level": "proof",
		"coverage": map[string]interface{}{
			"obligations": total, "discharged": discharged,
			"checker_cmd":             fmt.Sprintf("bin/govc check %s --tier %s", o.Prop, o.Tier),
			"trusted_base":            []string{"go/ssa of x/tools v0.29.0", "z3 4.8.12", "z3 5.1.0", "cvc5 1.0.3", "govc VC generator", "assumed contracts of external functions (see assumptions)"},
			"functions_under_check":   funcs,
			"functions":               fnList,
			"functions_out_of_subset": rejected,
			"by_backend":              bySolver,
			"by_class":                byClass,
			"solver_seconds":          solverS,
			"samples":                 samples,
			"bounded_stand_ins":       p.Bounded,
			"failed":                  failedNames,
			"explanation":             p.Title + ": every listed function is symbolically executed from go/ssa of the current tree; each obligation is one SMT query raced on three solvers",
		},
		"assumptions": assumptions,
		"wall_s":      time.Since(start).Seconds() + w.LoadSeconds,
		"violations":  violations,
	}
	os.MkdirAll(filepath.Join(o.VerifDir, "evidence"), 0o755)
	b, _ := json.MarshalIndent(ev, "", " ")
	os.WriteFile(filepath.Join(o.VerifDir, "evidence", o.Prop+".json"), b, 0o644)
	fmt.Printf("%s: %d functions, %d obligations, %d discharged, %d violations, %d out of subset, %.1fs\n", o.Prop, len(funcs), total, discharged, violations, len(rejected), time.Since(start).Seconds())
	if o.Verbose {
		for _, fo := range outs {
			fmt.Printf("  %-70s gen %.2fs solve %.2fs obl %d\n", fo.key, fo.genS, fo.solveS, len(fo.results))
		}
	}
	if violations > 0 {
		return 1
	}
	return 0
}

func firstLine(s string) string {
	if i := strings.Index(s, "\n"); i >= 0 {
		return s[:i]
	}
	return s
}

func sanitizeName(s string) string {
	var b strings.Builder
	for _, r := range s {
		if r >= 'a' && r <= 'z' || r >= 'A' && r <= 'Z' || r >= '0' && r <= '9' || r == '.' || r == '-' || r == '_' {
			b.WriteRune(r)
		} else {
			b.WriteByte('_')
		}
	}
	return b.String()
}

func loadKnown(path string) KnownFindings {
	var kf KnownFindings
	b, err := os.ReadFile(path)
	if err == nil {
		json.Unmarshal(b, &kf)
	}
	return kf
}

func writeReplayNote(path, prop string, r OblResult) {
	var sb strings.Builder
	fmt.Fprintf(&sb, "property: %s\nfailed obligation: %s\nclass: %s\nat: %s\nwhat: %s\nstatus: %s (solver %s, %.2fs)\n", prop, r.Name, r.Class, r.Pos, r.Detail, r.Status, r.Solver, r.Seconds)
	if len(r.Model) > 0 {
		b, _ := json.MarshalIndent(r.Model, "", " ")
		fmt.Fprintf(&sb, "solver model (not reproduced on the real code):\n%s\n", b)
	}
	fmt.Fprintf(&sb, "solver output:\n%s\n", r.Output)
	os.WriteFile(path, []byte(sb.String()), 0o644)
}

// checkBaseline returns baseline entries that were not generated. Entries are function keys ("fn <key>") and
// contract-level obligation names ("ob <name>"); ordinal-named safety obligations are not recorded.
func checkBaseline(path string, outs []*funcOutcome) []string {
	b, err := os.ReadFile(path)
	if err != nil {
		return nil
	}
	have := map[string]bool{}
	for _, fo := range outs {
		if fo.rejected == "" {
			have["fn "+fo.key] = true
		}
		for _, r := range fo.results {
			have["ob "+r.Name] = true
		}
	}
	var missing []string
	for _, line := range strings.Split(string(b), "\n") {
		line = strings.TrimSpace(line)
		if line == "" || strings.HasPrefix(line, "#") {
			continue
		}
		if !have[line] {
			missing = append(missing, line[3:])
		}
	}
	return missing
}

// WriteBaseline records the stable obligation names of a property run.
func WriteBaseline(w *World, prop, verifDir string) error {
	p := Props[prop]
	if p == nil {
		return fmt.Errorf("unknown property")
	}
	sel := p.Select(w)
	var lines []string
	for k, g := range sel {
		ct := w.Contracts[k]
		if g.NoCt {
			ct = nil
		}
		res := w.GenVC(w.Funcs[k], ct, func(e *Engine) { e.CheckNarrow = g.Narrow; e.OwnCheck = g.Own; e.AbstractConc = g.AbstractConc; e.ShareCheck = g.Share })
		if res.Rejected != "" {
			continue
		}
		lines = append(lines, "fn "+k)
		for _, ob := range res.Engine.Obls {
			if !g.keepsObl(ob) {
				continue
			}
			switch ob.Class {
			case "post", "inv-init", "inv-step", "decreases", "cover":
				lines = append(lines, "ob "+ob.Name)
			}
		}
	}
	sort.Strings(lines)
	os.MkdirAll(filepath.Join(verifDir, "baseline"), 0o755)
	return os.WriteFile(filepath.Join(verifDir, "baseline", prop+".txt"), []byte("# stable obligation names; regenerate deliberately with: govc baseline "+prop+"\n"+strings.Join(lines, "\n")+"\n"), 0o644)
}

// runBoundedTest runs one bounded stand-in in its package through an overlay (nothing is written into the repository).
func runBoundedTest(repoDir, verifDir string, bt BoundedTest) (bool, string) {
	if repoDir == "" {
		repoDir = "/repo"
	}
	tmp, err := os.MkdirTemp("", "govc-bounded")
	if err != nil {
		return false, err.Error()
	}
	defer os.RemoveAll(tmp)
	ov := map[string]map[string]string{"Replace": {filepath.Join(repoDir, bt.PkgDir, "zz_govc_bounded_test.go"): filepath.Join(verifDir, bt.File)}}
	b, _ := json.Marshal(ov)
	ovf := filepath.Join(tmp, "ov.json")
	os.WriteFile(ovf, b, 0o644)
	cmd := exec.Command("bash", "-c", fmt.Sprintf("cd "+repoDir+"/%s && go test -overlay %s -vet=off -count=1 -v -timeout 600s -run '^%s$' .", bt.PkgDir, ovf, bt.Run))
	cmd.Env = append(os.Environ(), "GOFLAGS=-mod=mod", "GOPROXY=off", "GOSUMDB=off", "GOTOOLCHAIN=local")
	out, _ := cmd.CombinedOutput()
	s := string(out)
	return strings.Contains(s, "--- PASS: "+bt.Run) && !strings.Contains(s, "--- FAIL"), trim(s, 4000)
}

// SolverSlots: each slot races three solver processes, so a slot per core would oversubscribe the machine threefold
// and stretch every query's latency towards its timeout.
func SolverSlots() int {
	n := runtime.NumCPU() * 3 / 8
	if n < 2 {
		n = 2
	}
	return n
}

func solverSlots() int { return SolverSlots() }
