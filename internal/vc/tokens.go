package vc

import (
	"go/types"
	"regexp"

	"verif/internal/smt"
)

// Token view of a byte stream (C01/C02 message bodies).
//
// Byte-exact layout proofs through several variable-length fields are too slow for the solvers (64-bit offset sums
// through nested appends). The token view abstracts a stream into the SEQUENCE OF NOTATIONS written to it: token i
// has a kind (which notation: [byte], [short], [int], [long], [string], [long string], [bytes], [short bytes], ...)
// and a payload (the scalar, the string, the byte string). Indices are mathematical integers, so "the third thing
// written is the [short] consistency" and "the decoder reads a [short] third" are linear facts.
//
// The link to bytes is made once, at the notation level: every notation's writer and reader are proved byte-exact and
// mutually inverse on their own (C02 contracts on primitive.Write*/Read*). Their token clauses are ASSUMED
// ("WriteShort appends one [short] token carrying its argument; ReadShort, when the next token is a [short], returns
// its payload and moves on") - they are the definition of the abstraction, justified by the byte-level contracts: if
// reader and writer agree token by token on the kind, they agree on every token's length and therefore on every
// token's bytes.
//
// Ghost state per stream key:   K<tok>.n (tokens written), K<tok>.r (next token to read), K<tok>.t (index -> Tok);
// accessors on the uninterpreted sort Tok: tok.kind, tok.bv (scalar payload, zero/sign-extended to 64 bits),
// tok.str, tok.win (byte string), tok.len, tok.nil.
//
// The view is opt-in: only functions whose contract says "tokens" pay for it; everywhere else the token builtins
// are not evaluated (clauses mentioning them are skipped).
const (
	tokN = "K<tok>.n"
	tokR = "K<tok>.r"
	tokT = "K<tok>.t"
)

const tokSort smt.Sort = "Tok"

func (e *Engine) tokArr(st *State, name string) *smt.Term {
	e.C.Sorts["Tok"] = true
	switch name {
	case tokT:
		return e.heapArr(st, name, smt.Array(smt.Int, smt.Array(smt.BV(64), tokSort)))
	}
	return e.heapArr(st, name, smt.Array(smt.Int, smt.BV(64)))
}

// tokHavocWrite: a write of unknown shape appends zero or more unknown tokens (earlier tokens are unchanged).
func (e *Engine) tokHavocWrite(st *State, key *smt.Term) {
	if !e.UseTokens {
		return
	}
	c := e.C
	n := e.tokArr(st, tokN)
	t := e.tokArr(st, tokT)
	oldN := c.Select(n, key)
	oldT := c.Select(t, key)
	newN := c.Fresh("tok.n", smt.BV(64))
	newT := c.Fresh("tok.t", smt.Array(smt.BV(64), tokSort))
	j := c.BoundVar("tj", smt.BV(64))
	e.assume(st, c.And(bvle(c, c.BVLit64(0, 64), oldN), bvle(c, oldN, newN), bvle(c, newN, c.BVLit64(1<<40, 64)),
		c.ForallPat([]*smt.Term{j}, c.Implies(c.And(bvle(c, c.BVLit64(0, 64), j), c.Op("bvslt", smt.Bool, j, oldN)), c.Eq(c.Select(newT, j), c.Select(oldT, j))), c.Select(newT, j))))
	st.Heap[tokN] = c.Store(n, key, newN)
	st.Heap[tokT] = c.Store(t, key, newT)
}

// tokHavocRead: a read of unknown shape consumes zero or more tokens.
func (e *Engine) tokHavocRead(st *State, key *smt.Term) {
	if !e.UseTokens {
		return
	}
	c := e.C
	r := e.tokArr(st, tokR)
	oldR := c.Select(r, key)
	newR := c.Fresh("tok.r", smt.BV(64))
	e.assume(st, c.And(bvle(c, c.BVLit64(0, 64), oldR), bvle(c, oldR, newR), bvle(c, newR, c.BVLit64(1<<40, 64))))
	st.Heap[tokR] = c.Store(r, key, newR)
}

// tokFresh: a new stream has no tokens.
func (e *Engine) tokFresh(st *State, key *smt.Term) {
	if !e.UseTokens {
		return
	}
	c := e.C
	st.Heap[tokN] = c.Store(e.tokArr(st, tokN), key, c.BVLit64(0, 64))
	st.Heap[tokR] = c.Store(e.tokArr(st, tokR), key, c.BVLit64(0, 64))
}

var tokBuiltinRe = regexp.MustCompile(`\btok(n|pos|kind|bv|str|win|len|nil|val)\(`)

// usesTokens: the clause speaks about the token view (skipped unless the function under verification opted in).
func usesTokens(cl *Clause) bool { return tokBuiltinRe.MatchString(cl.Text) }

var byteLevelRe = regexp.MustCompile(`\b(wbyte|rbyte|wbe[248]|rbe[248]|headerWritten|headerRead)\(`)

// byteLevel: the clause states byte contents of a stream. Under the token view such facts about callees are not
// assumed: the token clauses carry what is needed, and the byte-level quantified facts only slow the solvers down.
func byteLevel(cl *Clause) bool { return byteLevelRe.MatchString(cl.Text) }

// valueOf lists the terms that determine v as a piece of data: for a slice its length, nil-ness and an abstract
// window of each component array (equal windows = equal contents); for a map its length and its entry arrays; for
// anything else its components.
func (e *Engine) valueOf(st *State, v Val) []*smt.Term {
	c := e.C
	if v.Typ == nil {
		return v.Terms
	}
	switch u := types.Unalias(v.Typ).Underlying().(type) {
	case *types.Slice:
		// (nil and empty are the same piece of data: the wire cannot tell them apart)
		out := []*smt.Term{v.Terms[2]}
		for k, so := range e.comps(u.Elem()) {
			as := smt.Array(smt.BV(64), so)
			arr := e.heapArr(st, elemName(u.Elem(), k), smt.Array(smt.Int, as))
			out = append(out, c.App("val.win."+sortTag(so), as, c.Select(arr, v.Terms[0]), v.Terms[1], v.Terms[2]))
		}
		return out
	case *types.Map:
		mn := e.mapInfo(v.Typ)
		has := e.heapArr(st, mn.has, smt.Array(smt.Int, smt.Array(mn.ks, smt.Bool)))
		ln := e.heapArr(st, mn.ln, smt.Array(smt.Int, smt.BV(64)))
		out := []*smt.Term{c.Select(ln, v.Terms[0]), c.Select(has, v.Terms[0])}
		for k, so := range mn.vs {
			arr := e.heapArr(st, mn.vals[k], smt.Array(smt.Int, smt.Array(mn.ks, so)))
			out = append(out, c.Select(arr, v.Terms[0]))
		}
		return out
	}
	return v.Terms
}
