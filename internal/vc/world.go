package vc

import (
	"go/token"
	"fmt"
	"go/ast"
	"go/types"
	"os"
	"sort"
	"strings"
	"sync"

	"golang.org/x/tools/go/packages"
	"golang.org/x/tools/go/ssa"
	"golang.org/x/tools/go/ssa/ssautil"
)

// World is the loaded program plus the contracts found in it.
type World struct {
	Prog          *ssa.Program
	Pkgs          []*packages.Package
	SSAPkgs       map[string]*ssa.Package // by short path (e.g. "primitive")
	Funcs         map[string]*ssa.Function
	Contracts     map[string]*Contract
	NoInline      map[string]bool
	mu            sync.Mutex
	infos         map[*ssa.Function]*fnInfo
	modsets       map[*ssa.Function]*modSet
	Specs         map[string]*SpecFunc
	ContractFiles []string
	LoadSeconds   float64
	modsetsDone   bool
	NonNilGlobals map[*ssa.Global]bool
	TypeInvs      map[string][]*Clause // receiver type key, e.g. (*frame.codec)
	Dir           string
	sharedIfs     []*types.Interface
	sharedOnce    sync.Once
	mwMu          sync.Mutex
	mwCache       map[string]bool
}

type fnInfo struct {
	hasLoop bool
	rejects bool // uses constructs outside the subset
	soft    bool // ... but only go statements / make(chan), which the abstract-concurrency mode tolerates
	hard    bool
	size    int
}

// Load loads /repo (or dir) with the verif tag and builds SSA.
func Load(dir string, overlay map[string][]byte) (*World, error) {
	cfg := &packages.Config{Mode: packages.LoadAllSyntax, Dir: dir, BuildFlags: []string{"-tags=verif"}, Overlay: overlay,
		Env: append(os.Environ(), "GOFLAGS=-mod=mod", "GOPROXY=off", "GOSUMDB=off", "GOTOOLCHAIN=local")}
	pkgs, err := packages.Load(cfg, "./...")
	if err != nil {
		return nil, err
	}
	var errs []string
	packages.Visit(pkgs, nil, func(p *packages.Package) {
		for _, e := range p.Errors {
			errs = append(errs, e.Error())
		}
	})
	if len(errs) > 0 {
		return nil, fmt.Errorf("load errors: %s", strings.Join(errs, "; "))
	}
	prog, spkgs := ssautil.AllPackages(pkgs, ssa.GlobalDebug)
	prog.Build()
	w := &World{Prog: prog, Pkgs: pkgs, SSAPkgs: map[string]*ssa.Package{}, Funcs: map[string]*ssa.Function{},
		Contracts: map[string]*Contract{}, NoInline: map[string]bool{}, infos: map[*ssa.Function]*fnInfo{}, modsets: map[*ssa.Function]*modSet{},
		Specs: map[string]*SpecFunc{}, TypeInvs: map[string][]*Clause{}, Dir: dir}
	for i, sp := range spkgs {
		if sp == nil {
			continue
		}
		short := strings.TrimPrefix(strings.TrimPrefix(pkgs[i].PkgPath, repoPrefix), "/")
		w.SSAPkgs[short] = sp
	}
	for fn := range ssautil.AllFunctions(prog) {
		if inRepo(fn) {
			w.Funcs[FuncKey(fn)] = fn
		}
	}
	w.findNonNilGlobals()
	// contracts: //@ comment blocks in *_verif.go files
	for _, p := range pkgs {
		for i, file := range p.Syntax {
			name := p.CompiledGoFiles[i]
			if !strings.HasSuffix(name, "_verif.go") {
				continue
			}
			w.ContractFiles = append(w.ContractFiles, name)
			short := strings.TrimPrefix(strings.TrimPrefix(p.PkgPath, repoPrefix), "/")
			if err := w.parseContractFile(short, name, file, p); err != nil {
				return nil, err
			}
		}
	}
	return w, nil
}

func (w *World) fnInfo(fn *ssa.Function) *fnInfo {
	w.mu.Lock()
	defer w.mu.Unlock()
	if i, ok := w.infos[fn]; ok {
		return i
	}
	i := &fnInfo{}
	for _, b := range fn.Blocks {
		i.size += len(b.Instrs)
		for _, s := range b.Succs {
			if s.Dominates(b) {
				i.hasLoop = true
			}
		}
		for _, in := range b.Instrs {
			switch x := in.(type) {
			case *ssa.Go, *ssa.MakeChan:
				i.rejects = true
				i.soft = true
			case *ssa.Select:
				// tolerated in the sequential-channel mode when every channel involved is of a modelled kind
				i.rejects = true
				ok := true
				for _, s := range x.States {
					if !modelledChanType(s.Chan.Type()) {
						ok = false
					}
				}
				if ok {
					i.soft = true
				} else {
					i.hard = true
				}
			case *ssa.Send:
				i.rejects = true
				if modelledChanType(x.Chan.Type()) {
					i.soft = true
				} else {
					i.hard = true
				}
			case *ssa.Defer:
				if !isMutexCall(&x.Call) {
					i.rejects = true
					i.hard = true
				}
			}
		}
	}
	if fn.Recover != nil && !onlyMutexDefers(fn) {
		i.rejects = true
		i.hard = true
	}
	w.infos[fn] = i
	return i
}

// ---- static mod-sets ---------------------------------------------------------------------------

type modSet struct {
	fams map[string]bool
	all  bool
}

func (m *modSet) list() []string {
	if m.all {
		return []string{"*"}
	}
	var out []string
	for f := range m.fams {
		out = append(out, f)
	}
	sort.Strings(out)
	return out
}

func (m *modSet) add(o *modSet) {
	if o.all {
		m.all = true
	}
	for f := range o.fams {
		m.fams[f] = true
	}
}

func cellFam(t types.Type) string { return "H<" + typeStr(t) + ">" }
func elemFam(t types.Type) string { return "E<" + typeStr(t) + ">" }
func mapFam(t types.Type) string {
	mt := types.Unalias(t).Underlying().(*types.Map)
	return fmt.Sprintf("M<%s,%s>", typeStr(mt.Key()), typeStr(mt.Elem()))
}

// storeFamily mirrors the engine's naming of the heap family written by a store through addr.
func storeFamily(addr ssa.Value, allocs bool) (string, bool) {
	switch a := addr.(type) {
	case *ssa.FieldAddr:
		return storeFamily(a.X, allocs)
	case *ssa.IndexAddr:
		switch u := types.Unalias(a.X.Type()).Underlying().(type) {
		case *types.Slice:
			return elemFam(u.Elem()), true
		case *types.Pointer:
			if _, isAlloc := a.X.(*ssa.Alloc); isAlloc && !allocs {
				return "", false
			}
			return elemFam(u.Elem().Underlying().(*types.Array).Elem()), true
		}
	case *ssa.Alloc:
		if !allocs {
			return "", false // fresh object, invisible to callers
		}
	}
	el := types.Unalias(addr.Type()).Underlying().(*types.Pointer).Elem()
	if at, ok := types.Unalias(el).Underlying().(*types.Array); ok {
		return elemFam(at.Elem()), true
	}
	return cellFam(el), true
}

func (w *World) modSet(fn *ssa.Function) *modSet {
	w.mu.Lock()
	defer w.mu.Unlock()
	return w.modSetLocked(fn, map[*ssa.Function]bool{})
}

func (w *World) modSetLocked(fn *ssa.Function, active map[*ssa.Function]bool) *modSet {
	if !w.modsetsDone {
		w.computeAllModSets()
	}
	if m, ok := w.modsets[fn]; ok {
		return m
	}
	m := &modSet{fams: map[string]bool{}}
	if active[fn] {
		return m // recursion: fixpoint reached through the outer computation (conservative enough: union below)
	}
	active[fn] = true
	defer delete(active, fn)
	if os.Getenv("GOVC_DEBUG_MODSET") != "" {
		fmt.Fprintln(os.Stderr, "modset miss:", fn.String(), len(active))
	}
	if fn.Blocks == nil {
		m.all = !knownPure(fn.String())
		return m
	}
	w.modOfBlocks(fn, fn.Blocks, m, active, false)
	if (len(active) == 1 || w.modsetsDone) && !active[nil] {
		// after the global fixpoint every repository function is cached; what is computed here are wrappers and
		// other synthetic functions around them, whose result no longer depends on the active set
		w.modsets[fn] = m
	}
	return m
}

func knownPure(name string) bool {
	_, ok := callModels[name]
	return ok
}

func (w *World) modOfBlocks(fn *ssa.Function, blocks []*ssa.BasicBlock, m *modSet, active map[*ssa.Function]bool, allocs bool) {
	for _, b := range blocks {
		for _, in := range b.Instrs {
			switch x := in.(type) {
			case *ssa.Store:
				if fam, ok := storeFamily(x.Addr, allocs); ok {
					m.fams[fam] = true
				}
			case *ssa.MapUpdate:
				m.fams[mapFam(x.Map.Type())] = true
			case *ssa.Call:
				w.modOfCall(&x.Call, m, active)
			case *ssa.Defer:
				w.modOfCall(&x.Call, m, active)
			case *ssa.Go:
				m.all = true
			default:
				for _, fam := range chanFamsOf(in) {
					m.fams[fam] = true
				}
			}
		}
	}
}

func (w *World) modOfCall(cc *ssa.CallCommon, m *modSet, active map[*ssa.Function]bool) {
	if b, ok := cc.Value.(*ssa.Builtin); ok {
		switch b.Name() {
		case "append":
			m.fams[elemFam(types.Unalias(cc.Args[0].Type()).Underlying().(*types.Slice).Elem())] = true
		case "copy":
			m.fams[elemFam(types.Unalias(cc.Args[0].Type()).Underlying().(*types.Slice).Elem())] = true
		case "delete":
			m.fams[mapFam(cc.Args[0].Type())] = true
		case "close":
			if modelledChanType(cc.Args[0].Type()) {
				m.fams["C<"+typeStr(types.Unalias(cc.Args[0].Type()).Underlying().(*types.Chan).Elem())+">"] = true
			}
		}
		return
	}
	if active[nil] {
		// ownership mode (C17): members of the DeepCopy family are used through their generated summary, which
		// allocates and, for DeepCopyInto, writes the destination object only
		name := ""
		var recvDest types.Type
		if cc.IsInvoke() {
			name = cc.Method.Name()
		} else if fn := cc.StaticCallee(); fn != nil && fn.Signature.Recv() != nil {
			name = fn.Name()
			if len(cc.Args) == 2 {
				recvDest = cc.Args[1].Type()
			}
		}
		switch name {
		case "DeepCopy", "DeepCopyMessage", "DeepCopyDataType":
			return
		case "DeepCopyInto":
			if pt, ok := types.Unalias(recvDest).Underlying().(*types.Pointer); ok && recvDest != nil {
				m.fams[cellFam(pt.Elem())] = true
				return
			}
		}
	}
	if cc.IsInvoke() {
		m.add(w.invokeModSetLocked(cc.Value.Type(), cc.Method, active))
		// ghost stream state
		m.fams["G<stream>"] = true
		return
	}
	if fn := cc.StaticCallee(); fn != nil {
		if inRepo(fn) && fn.Blocks != nil {
			m.add(w.modSetLocked(fn, active))
			return
		}
		// external: may write through slice / pointer arguments and stream ghosts
		m.fams["G<stream>"] = true
		for _, a := range cc.Args {
			w.argMod(a.Type(), m)
			if mi, ok := a.(*ssa.MakeInterface); ok {
				w.argMod(mi.X.Type(), m)
			}
		}
		return
	}
	if mc, ok := cc.Value.(*ssa.MakeClosure); ok {
		m.add(w.modSetLocked(mc.Fn.(*ssa.Function), active))
		return
	}
	// dynamic call: any repository function or closure of identical signature may be the callee
	sig := cc.Signature()
	for _, fn := range w.Funcs {
		if fn.Signature.Recv() == nil && fn.Blocks != nil && types.Identical(fn.Signature, sig) {
			m.add(w.modSetLocked(fn, active))
		}
	}
	m.fams["G<stream>"] = true
}

func (w *World) argMod(t types.Type, m *modSet) {
	switch u := types.Unalias(t).Underlying().(type) {
	case *types.Slice:
		m.fams[elemFam(u.Elem())] = true
	case *types.Pointer:
		if at, ok := types.Unalias(u.Elem()).Underlying().(*types.Array); ok {
			m.fams[elemFam(at.Elem())] = true
		} else {
			m.fams[cellFam(u.Elem())] = true
		}
	case *types.Map:
		m.fams[mapFam(t)] = true
	}
}

func (w *World) invokeModSet(iface types.Type, method *types.Func) *modSet {
	w.mu.Lock()
	defer w.mu.Unlock()
	return w.invokeModSetLocked(iface, method, map[*ssa.Function]bool{})
}

func (w *World) invokeModSetLocked(iface types.Type, method *types.Func, active map[*ssa.Function]bool) *modSet {
	m := &modSet{fams: map[string]bool{}}
	if externalIface(iface) {
		// io.Reader / io.Writer / error ...: stream ghosts only; buffers passed in are handled by the models
		m.fams["G<stream>"] = true
		return m
	}
	it := types.Unalias(iface).Underlying().(*types.Interface)
	for _, impl := range w.implementers(it) {
		if fn := w.Prog.LookupMethod(impl, method.Pkg(), method.Name()); fn != nil {
			m.add(w.modSetLocked(fn, active))
		}
	}
	return m
}

// implementers lists the repo's named types (and their pointer types) that implement it.
func (w *World) implementers(it *types.Interface) []types.Type {
	var out []types.Type
	for _, p := range w.Pkgs {
		if !strings.HasPrefix(p.PkgPath, repoPrefix) {
			continue
		}
		sc := p.Types.Scope()
		for _, n := range sc.Names() {
			tn, ok := sc.Lookup(n).(*types.TypeName)
			if !ok || tn.IsAlias() {
				continue
			}
			t := tn.Type()
			if _, isI := t.Underlying().(*types.Interface); isI {
				continue
			}
			if types.Implements(t, it) {
				out = append(out, t)
			} else if types.Implements(types.NewPointer(t), it) {
				out = append(out, types.NewPointer(t))
			}
		}
	}
	return out
}

// loopModSet is the mod-set of the blocks of one loop.
func (w *World) loopModSet(fn *ssa.Function, li *loopInfo, own bool) *modSet {
	w.mu.Lock()
	defer w.mu.Unlock()
	if !w.modsetsDone {
		w.computeAllModSets()
	}
	m := &modSet{fams: map[string]bool{}}
	var blocks []*ssa.BasicBlock
	for _, b := range fn.Blocks {
		if li.blocks[b] {
			blocks = append(blocks, b)
		}
	}
	active := map[*ssa.Function]bool{fn: true}
	if own {
		active[nil] = true
	}
	w.modOfBlocks(fn, blocks, m, active, true)
	return m
}

var _ = ast.Inspect

// ModSetList exposes the static mod-set of fn (diagnostics).
func (w *World) ModSetList(fn *ssa.Function) []string { return w.modSet(fn).list() }

// findNonNilGlobals: interface-typed package variables whose only store is "errors.New(...)" / "fmt.Errorf(...)" in
// the package initialiser.
func (w *World) findNonNilGlobals() {
	w.NonNilGlobals = map[*ssa.Global]bool{}
	stores := map[*ssa.Global]int{}
	good := map[*ssa.Global]bool{}
	for fn := range ssautil.AllFunctions(w.Prog) {
		for _, b := range fn.Blocks {
			for _, in := range b.Instrs {
				st, ok := in.(*ssa.Store)
				if !ok {
					continue
				}
				g, ok := st.Addr.(*ssa.Global)
				if !ok {
					continue
				}
				stores[g]++
				if fn.Name() == "init" {
					if call, ok := st.Val.(*ssa.Call); ok {
						if cal := call.Call.StaticCallee(); cal != nil && (cal.String() == "errors.New" || cal.String() == "fmt.Errorf") {
							good[g] = true
						}
					}
				}
			}
		}
	}
	for g := range good {
		if stores[g] == 1 {
			w.NonNilGlobals[g] = true
		}
	}
}

// invokeModSetByName: mod-set of all implementers of method name of interface type t.
func (w *World) invokeModSetByName(t types.Type, name string) *modSet {
	it := types.Unalias(t).Underlying().(*types.Interface)
	for i := 0; i < it.NumMethods(); i++ {
		if it.Method(i).Name() == name {
			return w.invokeModSet(t, it.Method(i))
		}
	}
	return &modSet{fams: map[string]bool{}}
}

// computeAllModSets computes the static mod-set of every repository function by a global fixpoint over the call
// graph (static callees, implementers of invoked repository interfaces, signature-compatible functions for dynamic
// calls), so that later queries are table look-ups.
func (w *World) computeAllModSets() {
	w.modsetsDone = true
	type node struct {
		local   *modSet
		callees []*ssa.Function
	}
	nodes := map[*ssa.Function]*node{}
	var fns []*ssa.Function
	for _, fn := range w.Funcs {
		if fn.Blocks != nil {
			fns = append(fns, fn)
		}
	}
	bySig := func(sig *types.Signature) []*ssa.Function {
		var out []*ssa.Function
		for _, fn := range fns {
			if fn.Signature.Recv() == nil && types.Identical(fn.Signature, sig) {
				out = append(out, fn)
			}
		}
		return out
	}
	for _, fn := range fns {
		n := &node{local: &modSet{fams: map[string]bool{}}}
		nodes[fn] = n
		for _, b := range fn.Blocks {
			for _, in := range b.Instrs {
				var cc *ssa.CallCommon
				switch x := in.(type) {
				case *ssa.Store:
					if fam, ok := storeFamily(x.Addr, false); ok {
						n.local.fams[fam] = true
					}
				case *ssa.MapUpdate:
					n.local.fams[mapFam(x.Map.Type())] = true
				case *ssa.Call:
					cc = &x.Call
				case *ssa.Defer:
					cc = &x.Call
				case *ssa.Go:
					n.local.all = true
				default:
					for _, fam := range chanFamsOf(in) {
						n.local.fams[fam] = true
					}
				}
				if cc == nil {
					continue
				}
				if b, ok := cc.Value.(*ssa.Builtin); ok {
					switch b.Name() {
					case "append", "copy":
						n.local.fams[elemFam(types.Unalias(cc.Args[0].Type()).Underlying().(*types.Slice).Elem())] = true
					case "delete":
						n.local.fams[mapFam(cc.Args[0].Type())] = true
					case "close":
						if modelledChanType(cc.Args[0].Type()) {
							n.local.fams["C<"+typeStr(types.Unalias(cc.Args[0].Type()).Underlying().(*types.Chan).Elem())+">"] = true
						}
					}
					continue
				}
				if cc.IsInvoke() {
					n.local.fams["G<stream>"] = true
					if !externalIface(cc.Value.Type()) {
						it := types.Unalias(cc.Value.Type()).Underlying().(*types.Interface)
						for _, impl := range w.implementers(it) {
							if f2 := w.Prog.LookupMethod(impl, cc.Method.Pkg(), cc.Method.Name()); f2 != nil {
								n.callees = append(n.callees, f2)
							}
						}
					}
					continue
				}
				if callee := cc.StaticCallee(); callee != nil {
					if inRepo(callee) && callee.Blocks != nil {
						n.callees = append(n.callees, callee)
						continue
					}
					if readOnlyExternal(callee.String()) {
						continue
					}
					n.local.fams["G<stream>"] = true
					for _, a := range cc.Args {
						w.argMod(a.Type(), n.local)
						if mi, ok := a.(*ssa.MakeInterface); ok {
							w.argMod(mi.X.Type(), n.local)
						}
					}
					continue
				}
				if mc, ok := cc.Value.(*ssa.MakeClosure); ok {
					n.callees = append(n.callees, mc.Fn.(*ssa.Function))
					continue
				}
				n.local.fams["G<stream>"] = true
				n.callees = append(n.callees, bySig(cc.Signature())...)
			}
		}
	}
	for fn, n := range nodes {
		m := &modSet{fams: map[string]bool{}}
		m.add(n.local)
		w.modsets[fn] = m
	}
	for changed := true; changed; {
		changed = false
		for fn, n := range nodes {
			m := w.modsets[fn]
			before, wasAll := len(m.fams), m.all
			for _, cal := range n.callees {
				if cm, ok := w.modsets[cal]; ok {
					m.add(cm)
				}
			}
			if len(m.fams) != before || m.all != wasAll {
				changed = true
			}
		}
	}
}

// readOnlyExternal: external functions known not to write through their arguments (nor to any stream).
func readOnlyExternal(name string) bool {
	for _, p := range []string{"fmt.Errorf", "fmt.Sprintf", "fmt.Sprint", "errors.New", "errors.Is", "strconv.", "math.", "math/bits.", "encoding/hex.",
		"(encoding/binary.bigEndian).Uint", "(encoding/binary.littleEndian).Uint", "(net.IP).To", "(net.IP).String", "(net.IP).Equal",
		"(*math/big.Int).IsInt64", "(*math/big.Int).IsUint64", "(*math/big.Int).Int64", "(*math/big.Int).Uint64", "(*math/big.Int).Sign",
		"(*math/big.Int).String", "(*math/big.Int).Text", "(*math/big.Int).BitLen", "(*math/big.Int).Bytes", "(*math/big.Int).Cmp",
		"(time.Time).", "(time.Duration).", "time.Unix", "time.Date", "reflect.TypeOf", "(reflect.Value).Kind", "(reflect.Value).Type",
		"(reflect.Value).Len", "(reflect.Value).IsNil", "(reflect.Value).IsValid", "(reflect.Value).CanSet", "(reflect.Value).Cap",
		"github.com/rs/zerolog", "hash/crc32.Update", "github.com/pierrec/lz4/v4.CompressBlockBound", "strings."} {
		if strings.HasPrefix(name, p) {
			return true
		}
	}
	return false
}

// chanFamsOf: the channel-state families an instruction may change (sequential channel model, chan.go).
func chanFamsOf(in ssa.Instruction) []string {
	fam := func(t types.Type) []string {
		if !modelledChanType(t) {
			return nil
		}
		ch := types.Unalias(t).Underlying().(*types.Chan)
		return []string{"C<" + typeStr(ch.Elem()) + ">"}
	}
	switch x := in.(type) {
	case *ssa.Send:
		return fam(x.Chan.Type())
	case *ssa.Select:
		var out []string
		for _, s := range x.States {
			out = append(out, fam(s.Chan.Type())...)
		}
		return out
	case *ssa.UnOp:
		if x.Op == token.ARROW {
			return fam(x.X.Type())
		}
	}
	return nil
}
