package vc

import (
	"fmt"
	"go/token"
	"go/types"
	"math"
	"math/big"

	"golang.org/x/tools/go/ssa"

	"verif/internal/smt"
)

func float32bits(f float32) uint32 { return math.Float32bits(f) }
func float64bits(f float64) uint64 { return math.Float64bits(f) }

func (e *Engine) binop(f *frame, st *State, x *ssa.BinOp, pos string) Val {
	a, b := f.get(x.X), f.get(x.Y)
	t := x.X.Type()
	return e.binopVals(st, x.Op, a, b, t, x.Y.Type(), x.Type(), pos)
}

func (e *Engine) binopVals(st *State, op token.Token, a, b Val, t, ty, rt types.Type, pos string) Val {
	c := e.C
	out := Val{Typ: rt}
	switch op {
	case token.EQL, token.NEQ:
		eq := e.valEq(st, a, b, t)
		if op == token.NEQ {
			eq = c.Not(eq)
		}
		out.Terms = []*smt.Term{eq}
		return out
	}
	switch {
	case isInteger(t):
		w := bitWidth(t)
		s := smt.BV(w)
		sg := isSigned(t)
		x, y := a.Terms[0], b.Terms[0]
		switch op {
		case token.ADD:
			out.Terms = []*smt.Term{c.Op("bvadd", s, x, y)}
		case token.SUB:
			out.Terms = []*smt.Term{c.Op("bvsub", s, x, y)}
		case token.MUL:
			out.Terms = []*smt.Term{c.Op("bvmul", s, x, y)}
		case token.QUO, token.REM:
			e.oblige(st, "div", "", c.Not(c.Eq(y, c.BVLit64(0, w))), pos, "division by zero")
			if _, isConst := y.BVValue(); w == 64 && e.noAssume == 0 && !isConst || (w == 64 && e.noAssume == 0 && isConst) {
				// 64-bit division circuits defeat the solvers; characterise quotient and remainder by
				// x = q*y + r, |r| < |y|, sign(r) = sign(x) (exact and complete, cheap when y is a constant)
				q, r := e.divMod(st, x, y, sg)
				if op == token.QUO {
					out.Terms = []*smt.Term{q}
				} else {
					out.Terms = []*smt.Term{r}
				}
				return out
			}
			name := map[bool]map[token.Token]string{true: {token.QUO: "bvsdiv", token.REM: "bvsrem"}, false: {token.QUO: "bvudiv", token.REM: "bvurem"}}[sg][op]
			out.Terms = []*smt.Term{c.Op(name, s, x, y)}
		case token.AND:
			out.Terms = []*smt.Term{c.Op("bvand", s, x, y)}
		case token.OR:
			out.Terms = []*smt.Term{c.Op("bvor", s, x, y)}
		case token.XOR:
			out.Terms = []*smt.Term{c.Op("bvxor", s, x, y)}
		case token.AND_NOT:
			out.Terms = []*smt.Term{c.Op("bvand", s, x, c.Op("bvnot", s, y))}
		case token.SHL, token.SHR:
			yw := bitWidth(ty)
			if isSigned(ty) {
				e.oblige(st, "shift", "", c.Op("bvsle", smt.Bool, c.BVLit64(0, yw), y), pos, "negative shift count")
			}
			var cnt *smt.Term
			var big *smt.Term // count >= width
			if yw <= w {
				cnt = c.Extend(y, w, false)
				big = c.False()
			} else {
				cnt = c.Extend(y, w, false)
				big = c.Op("bvuge", smt.Bool, y, c.BVLit64(int64(w), yw))
			}
			var r, sat *smt.Term
			if op == token.SHL {
				r = c.Op("bvshl", s, x, cnt)
				sat = c.BVLit64(0, w)
			} else if sg {
				r = c.Op("bvashr", s, x, cnt)
				sat = c.Op("bvashr", s, x, c.BVLit64(int64(w-1), w))
			} else {
				r = c.Op("bvlshr", s, x, cnt)
				sat = c.BVLit64(0, w)
			}
			out.Terms = []*smt.Term{c.Ite(big, sat, r)}
		case token.LSS, token.LEQ, token.GTR, token.GEQ:
			name := map[bool]map[token.Token]string{
				true:  {token.LSS: "bvslt", token.LEQ: "bvsle", token.GTR: "bvsgt", token.GEQ: "bvsge"},
				false: {token.LSS: "bvult", token.LEQ: "bvule", token.GTR: "bvugt", token.GEQ: "bvuge"}}[sg][op]
			out.Terms = []*smt.Term{c.Op(name, smt.Bool, x, y)}
		default:
			panic(reject("integer binop " + op.String()))
		}
		return out
	case isFloat(t):
		s := e.comps(t)[0]
		x, y := a.Terms[0], b.Terms[0]
		rne := c.Op("RNE", "RoundingMode")
		switch op {
		case token.ADD:
			out.Terms = []*smt.Term{c.Op("fp.add", s, rne, x, y)}
		case token.SUB:
			out.Terms = []*smt.Term{c.Op("fp.sub", s, rne, x, y)}
		case token.MUL:
			out.Terms = []*smt.Term{c.Op("fp.mul", s, rne, x, y)}
		case token.QUO:
			out.Terms = []*smt.Term{c.Op("fp.div", s, rne, x, y)}
		case token.LSS:
			out.Terms = []*smt.Term{c.Op("fp.lt", smt.Bool, x, y)}
		case token.LEQ:
			out.Terms = []*smt.Term{c.Op("fp.leq", smt.Bool, x, y)}
		case token.GTR:
			out.Terms = []*smt.Term{c.Op("fp.gt", smt.Bool, x, y)}
		case token.GEQ:
			out.Terms = []*smt.Term{c.Op("fp.geq", smt.Bool, x, y)}
		default:
			panic(reject("float binop " + op.String()))
		}
		return out
	case isString(t):
		x, y := a.Terms[0], b.Terms[0]
		switch op {
		case token.ADD:
			r := c.App("gs.cat", smt.Str, x, y)
			e.assume(st, c.Eq(e.strLen(r), c.Op("bvadd", smt.BV(64), e.strLen(x), e.strLen(y))))
			out.Terms = []*smt.Term{r}
		case token.LSS:
			out.Terms = []*smt.Term{c.App("gs.lt", smt.Bool, x, y)}
		case token.GTR:
			out.Terms = []*smt.Term{c.App("gs.lt", smt.Bool, y, x)}
		case token.LEQ:
			out.Terms = []*smt.Term{c.Not(c.App("gs.lt", smt.Bool, y, x))}
		case token.GEQ:
			out.Terms = []*smt.Term{c.Not(c.App("gs.lt", smt.Bool, x, y))}
		default:
			panic(reject("string binop " + op.String()))
		}
		return out
	case isBool(t):
		x, y := a.Terms[0], b.Terms[0]
		switch op {
		case token.AND, token.LAND:
			out.Terms = []*smt.Term{c.And(x, y)}
		case token.OR, token.LOR:
			out.Terms = []*smt.Term{c.Or(x, y)}
		case token.XOR:
			out.Terms = []*smt.Term{c.Not(c.Eq(x, y))}
		default:
			panic(reject("bool binop " + op.String()))
		}
		return out
	}
	panic(reject(fmt.Sprintf("binop %s on %s", op, t)))
}

// valEq is Go's == on values of type t.
func (e *Engine) valEq(st *State, a, b Val, t types.Type) *smt.Term {
	c := e.C
	switch {
	case isFloat(t):
		return c.Op("fp.eq", smt.Bool, a.Terms[0], b.Terms[0])
	case isInterface(t):
		// comparing against nil (either side) is exact; otherwise identity of boxes under-approximates equality of
		// boxed scalars, so only tag-and-reference equality of pointer-shaped payloads is exact.
		return c.And(c.Eq(a.Terms[0], b.Terms[0]), c.Eq(a.Terms[1], b.Terms[1]))
	case isSlice(t), isMap(t):
		// only comparison with nil is legal Go
		return c.Eq(a.Terms[0], b.Terms[0])
	case isPointer(t):
		eq := c.Eq(a.Terms[0], b.Terms[0])
		if a.Ptr != nil && b.Ptr != nil && a.Ptr.IsElem && b.Ptr.IsElem {
			eq = c.And(eq, c.Eq(a.Ptr.Elem, b.Ptr.Elem))
		}
		return eq
	}
	if len(a.Terms) != len(b.Terms) {
		// comparing with untyped nil etc.
		panic(reject("== on mismatched shapes " + t.String()))
	}
	var cs []*smt.Term
	for i := range a.Terms {
		if a.Terms[i].Sort == smt.F32 || a.Terms[i].Sort == smt.F64 {
			cs = append(cs, c.Op("fp.eq", smt.Bool, a.Terms[i], b.Terms[i]))
		} else {
			cs = append(cs, c.Eq(a.Terms[i], b.Terms[i]))
		}
	}
	return c.And(cs...)
}

func (e *Engine) unop(f *frame, st *State, x *ssa.UnOp, pos string) Val {
	c := e.C
	a := f.get(x.X)
	switch x.Op {
	case token.MUL:
		e.nilCheck(st, a, pos, "nil pointer dereference")
		v := e.load(st, a, x.Type())
		if a.Glob != nil && (a.Glob.String() == "io.Discard" || a.Glob.String() == "io/ioutil.Discard") {
			// io.Discard is a stateless writer: writing to it changes nothing anybody can observe, so it is
			// modelled as a writer private to this call (its byte count is ghost state only)
			v.Terms = []*smt.Term{c.IntLit(int64(e.typeTag(errTagType) + 1000000)), e.newRef(st)}
			e.note("io.Discard is modelled as a fresh stateless writer")
		}
		if a.Glob != nil && e.W.NonNilGlobals[a.Glob] && isInterface(x.Type()) {
			e.assume(st, c.And(c.Not(c.Eq(v.Terms[0], c.IntLit(0))), c.Not(c.Eq(v.Terms[1], c.IntLit(0)))))
			e.note("package-level error variables initialised with errors.New/fmt.Errorf and never reassigned are non-nil")
		}
		return v
	case token.NOT:
		return Val{Typ: x.Type(), Terms: []*smt.Term{c.Not(a.Terms[0])}}
	case token.SUB:
		if isFloat(x.Type()) {
			return Val{Typ: x.Type(), Terms: []*smt.Term{c.Op("fp.neg", a.Terms[0].Sort, a.Terms[0])}}
		}
		return Val{Typ: x.Type(), Terms: []*smt.Term{c.Op("bvneg", a.Terms[0].Sort, a.Terms[0])}}
	case token.XOR:
		return Val{Typ: x.Type(), Terms: []*smt.Term{c.Op("bvnot", a.Terms[0].Sort, a.Terms[0])}}
	case token.ARROW:
		if e.AbstractConc {
			if v, ok := e.execRecv(f, st, x, pos); ok {
				return v
			}
		}
		panic(reject("channel receive"))
	}
	panic(reject("unop " + x.Op.String()))
}

func (e *Engine) convert(st *State, v Val, from, to types.Type, pos string) Val {
	c := e.C
	out := Val{Typ: to}
	switch {
	case isInteger(from) && isInteger(to):
		out.Terms = []*smt.Term{c.Extend(v.Terms[0], bitWidth(to), isSigned(from))}
		if e.CheckNarrow && e.quiet == 0 && e.inTopPackage() && (bitWidth(to) < bitWidth(from) || (isSigned(from) != isSigned(to) && !(isSigned(to) && bitWidth(to) > bitWidth(from)))) {
			// value-changing integer conversions must be provably exact in functions under the C13 rule
			e.oblige(st, "narrow", "", c.Eq(c.Extend(v.Terms[0], mathW, isSigned(from)), c.Extend(out.Terms[0], mathW, isSigned(to))), pos,
				fmt.Sprintf("conversion %s -> %s preserves the mathematical value", typeStr(from), typeStr(to)))
		}
	case isInteger(from) && isFloat(to):
		s := e.comps(to)[0]
		op := "to_fp"
		if !isSigned(from) {
			op = "to_fp_unsigned"
		}
		eb, sb := 11, 53
		if s == smt.F32 {
			eb, sb = 8, 24
		}
		out.Terms = []*smt.Term{c.Op(fmt.Sprintf("(_ %s %d %d)", op, eb, sb), s, c.Op("RNE", "RoundingMode"), v.Terms[0])}
	case isFloat(from) && isFloat(to):
		s := e.comps(to)[0]
		if v.Terms[0].Sort == s {
			out.Terms = v.Terms
		} else {
			eb, sb := 11, 53
			if s == smt.F32 {
				eb, sb = 8, 24
			}
			out.Terms = []*smt.Term{c.Op(fmt.Sprintf("(_ to_fp %d %d)", eb, sb), s, c.Op("RNE", "RoundingMode"), v.Terms[0])}
		}
	case isFloat(from) && isInteger(to):
		w := bitWidth(to)
		op := "fp.to_sbv"
		if !isSigned(to) {
			op = "fp.to_ubv"
		}
		e.note("float-to-integer conversion of out-of-range values is implementation-defined in Go; modelled as SMT fp.to_sbv/ubv RTZ (unspecified out of range)")
		out.Terms = []*smt.Term{c.Op(fmt.Sprintf("(_ %s %d)", op, w), smt.BV(w), c.Op("RTZ", "RoundingMode"), v.Terms[0])}
	case isString(from) && isSlice(to):
		// []byte(s): fresh backing array holding the bytes of s
		el := types.Unalias(to).Underlying().(*types.Slice).Elem()
		if isInteger(el) && bitWidth(el) == 32 {
			// []rune(s): at most one rune per byte; contents are abstracted
			ref := e.newRef(st)
			name := elemName(el, 0)
			as := smt.Array(smt.BV(64), smt.BV(32))
			arr := e.heapArr(st, name, smt.Array(smt.Int, as))
			st.Heap[name] = c.Store(arr, ref, c.App("gs.runes", as, v.Terms[0]))
			n := c.App("gs.runecount", smt.BV(64), v.Terms[0])
			e.assume(st, c.And(c.Op("bvsle", smt.Bool, c.BVLit64(0, 64), n), c.Op("bvsle", smt.Bool, n, e.strLen(v.Terms[0])), c.Op("bvsle", smt.Bool, e.strLen(v.Terms[0]), c.BVLit64(sizeBound, 64))))
			out.Terms = []*smt.Term{ref, c.BVLit64(0, 64), n, n}
			return out
		}
		if !isInteger(el) || bitWidth(el) != 8 {
			panic(reject("string to non-byte slice"))
		}
		ref := e.newRef(st)
		name := elemName(el, 0)
		arr := e.heapArr(st, name, smt.Array(smt.Int, smt.Array(smt.BV(64), smt.BV(8))))
		st.Heap[name] = c.Store(arr, ref, c.App("gs.bytes", smt.Array(smt.BV(64), smt.BV(8)), v.Terms[0]))
		ln := e.strLen(v.Terms[0])
		e.assume(st, c.Op("bvsle", smt.Bool, c.BVLit64(0, 64), ln))
		out.Terms = []*smt.Term{ref, c.BVLit64(0, 64), ln, ln}
	case isSlice(from) && isString(to):
		name := elemName(types.Typ[types.Uint8], 0)
		arr := e.heapArr(st, name, smt.Array(smt.Int, smt.Array(smt.BV(64), smt.BV(8))))
		s := c.App("gs.of", smt.Str, c.Select(arr, v.Terms[0]), v.Terms[1], v.Terms[2])
		e.assume(st, c.Eq(e.strLen(s), v.Terms[2]))
		out.Terms = []*smt.Term{s}
	case isString(from) && isString(to):
		out.Terms = v.Terms
	case isInteger(from) && isString(to):
		s := c.App("gs.rune", smt.Str, c.Extend(v.Terms[0], 64, isSigned(from)))
		out.Terms = []*smt.Term{s}
	default:
		// identical underlying types (e.g. named struct conversions)
		if len(e.comps(from)) == len(e.comps(to)) && !isPointer(to) {
			out.Terms = v.Terms
			return out
		}
		panic(reject(fmt.Sprintf("convert %s -> %s", from, to)))
	}
	return out
}

func pointerShaped(t types.Type) bool {
	switch types.Unalias(t).Underlying().(type) {
	case *types.Pointer, *types.Map, *types.Chan, *types.Signature:
		return true
	case *types.Basic:
		return types.Unalias(t).Underlying().(*types.Basic).Kind() == types.UnsafePointer
	}
	return false
}

func (e *Engine) makeInterface(st *State, v Val, dyn, to types.Type) Val {
	c := e.C
	if isInterface(dyn) {
		return e.retag(v, to)
	}
	tag := c.IntLit(int64(e.typeTag(dyn)))
	out := Val{Typ: to}
	if pointerShaped(dyn) {
		if v.Ptr != nil && !v.Ptr.whole(e) {
			panic(reject("interior pointer converted to interface"))
		}
		out.Terms = []*smt.Term{tag, v.Terms[0]}
	} else {
		ref := e.newRef(st)
		for k, s := range e.comps(dyn) {
			name := boxName(dyn, k)
			arr := e.heapArr(st, name, smt.Array(smt.Int, s))
			st.Heap[name] = c.Store(arr, ref, v.Terms[k])
		}
		out.Terms = []*smt.Term{tag, ref}
	}
	kv := v
	kv.Typ = dyn
	out.Known = &kv
	return out
}

// unbox reads the dynamic value of type t out of interface value iv (assuming its tag is t).
func (e *Engine) unbox(st *State, iv Val, t types.Type) Val {
	out := Val{Typ: t}
	if pointerShaped(t) {
		out.Terms = []*smt.Term{iv.Terms[1]}
		e.wrapPtr(&out)
		return out
	}
	for k, s := range e.comps(t) {
		arr := e.heapArr(st, boxName(t, k), smt.Array(smt.Int, s))
		out.Terms = append(out.Terms, e.C.Select(arr, iv.Terms[1]))
	}
	e.wrapPtr(&out)
	e.assumeLoaded(st, out)
	// references inside a boxed value are reached from the interface value: owned if it is (C18)
	e.shareLoaded(st, iv.Terms[1], out)
	return out
}

func (e *Engine) implements(tag *smt.Term, iface types.Type) *smt.Term {
	name := "impl<" + typeStr(iface) + ">"
	e.implQueries[name] = iface
	return e.C.App(name, smt.Bool, tag)
}

func (e *Engine) typeAssert(f *frame, st *State, x *ssa.TypeAssert, pos string) Val {
	c := e.C
	iv := f.get(x.X)
	var ok *smt.Term
	var val Val
	if isInterface(x.AssertedType) {
		it := types.Unalias(x.AssertedType).Underlying().(*types.Interface)
		nonNil := c.Not(c.Eq(iv.Terms[0], c.IntLit(0)))
		if types.Implements(x.X.Type(), it) || it.NumMethods() == 0 {
			ok = nonNil
		} else if iv.Known != nil {
			// the dynamic type is statically known: the assertion is decided here
			ok = c.And(nonNil, c.BoolLit(types.Implements(iv.Known.Typ, it)))
		} else {
			ok = c.And(nonNil, e.implements(iv.Terms[0], x.AssertedType))
		}
		val = Val{Typ: x.AssertedType, Terms: iv.Terms, Known: iv.Known}
	} else {
		ok = c.Eq(iv.Terms[0], c.IntLit(int64(e.typeTag(x.AssertedType))))
		val = e.unbox(st, iv, x.AssertedType)
	}
	if !x.CommaOk {
		e.oblige(st, "typeassert", "", ok, pos, "type assertion to "+typeStr(x.AssertedType))
		return val
	}
	z := e.zero(x.AssertedType)
	out := Val{Typ: x.Type()}
	for i := range val.Terms {
		out.Terms = append(out.Terms, c.Ite(ok, val.Terms[i], z.Terms[i]))
	}
	out.Terms = append(out.Terms, ok)
	if isInterface(x.AssertedType) && iv.Known != nil {
		out.Known = iv.Known // of component 0 (see Extract)
	}
	return out
}

// ---- maps ------------------------------------------------------------------------------------

type mapNames struct {
	has, ln string
	vals    []string
	ks      smt.Sort
	vs      []smt.Sort
	key     types.Type
	val     types.Type
}

func (e *Engine) mapInfo(t types.Type) mapNames {
	mt := types.Unalias(t).Underlying().(*types.Map)
	kc := e.comps(mt.Key())
	if len(kc) != 1 {
		panic(reject("map with composite key type " + mt.Key().String()))
	}
	fam := fmt.Sprintf("M<%s,%s>", typeStr(mt.Key()), typeStr(mt.Elem()))
	mn := mapNames{has: fam + ".has", ln: fam + ".len", ks: kc[0], key: mt.Key(), val: mt.Elem()}
	for k, s := range e.comps(mt.Elem()) {
		mn.vals = append(mn.vals, fmt.Sprintf("%s.v#%d", fam, k))
		mn.vs = append(mn.vs, s)
	}
	return mn
}

func (e *Engine) mapInit(st *State, t types.Type, ref *smt.Term) {
	mn := e.mapInfo(t)
	c := e.C
	has := e.heapArr(st, mn.has, smt.Array(smt.Int, smt.Array(mn.ks, smt.Bool)))
	st.Heap[mn.has] = c.Store(has, ref, e.zeroOf(smt.Array(mn.ks, smt.Bool)))
	ln := e.heapArr(st, mn.ln, smt.Array(smt.Int, smt.BV(64)))
	st.Heap[mn.ln] = c.Store(ln, ref, c.BVLit64(0, 64))
}

func (e *Engine) mapLen(st *State, m Val) *smt.Term {
	mn := e.mapInfo(m.Typ)
	c := e.C
	ln := e.heapArr(st, mn.ln, smt.Array(smt.Int, smt.BV(64)))
	l := c.Select(ln, m.Terms[0])
	e.assume(st, c.And(c.Op("bvsle", smt.Bool, c.BVLit64(0, 64), l), c.Op("bvsle", smt.Bool, l, c.BVLit64(sizeBound, 64))))
	return c.Ite(c.Eq(m.Terms[0], c.IntLit(0)), c.BVLit64(0, 64), l)
}

func (e *Engine) mapHas(st *State, m Val, key *smt.Term) *smt.Term {
	mn := e.mapInfo(m.Typ)
	c := e.C
	has := e.heapArr(st, mn.has, smt.Array(smt.Int, smt.Array(mn.ks, smt.Bool)))
	h := c.And(c.Not(c.Eq(m.Terms[0], c.IntLit(0))), c.Select(c.Select(has, m.Terms[0]), key))
	// a present key means a non-empty map
	ln := e.heapArr(st, mn.ln, smt.Array(smt.Int, smt.BV(64)))
	e.assume(st, c.Implies(h, c.Op("bvsle", smt.Bool, c.BVLit64(1, 64), c.Select(ln, m.Terms[0]))))
	return h
}

func (e *Engine) mapGet(st *State, m Val, key *smt.Term) (Val, *smt.Term) {
	mn := e.mapInfo(m.Typ)
	c := e.C
	h := e.mapHas(st, m, key)
	z := e.zero(mn.val)
	out := Val{Typ: mn.val}
	for k, s := range mn.vs {
		arr := e.heapArr(st, mn.vals[k], smt.Array(smt.Int, smt.Array(mn.ks, s)))
		out.Terms = append(out.Terms, c.Ite(h, c.Select(c.Select(arr, m.Terms[0]), key), z.Terms[k]))
	}
	e.wrapPtr(&out)
	e.assumeLoaded(st, out)
	e.shareLoaded(st, m.Terms[0], out)
	return out, h
}

func (e *Engine) lookup(f *frame, st *State, x *ssa.Lookup, pos string) Val {
	c := e.C
	m := f.get(x.X)
	if isString(x.X.Type()) {
		idx := e.toIndex(f.get(x.Index), x.Index.Type())
		e.oblige(st, "index", "", e.inBounds(idx, e.strLen(m.Terms[0])), pos, "string index in range")
		return Val{Typ: x.Type(), Terms: []*smt.Term{c.Select(c.App("gs.bytes", bytesInner, m.Terms[0]), idx)}}
	}
	key := f.get(x.Index)
	if len(key.Terms) != 1 {
		panic(reject("map lookup with composite key"))
	}
	m.Typ = x.X.Type()
	v, h := e.mapGet(st, m, key.Terms[0])
	if !x.CommaOk {
		return e.retag(v, x.Type())
	}
	out := Val{Typ: x.Type(), Terms: append(append([]*smt.Term{}, v.Terms...), h)}
	return out
}

func (e *Engine) mapUpdate(f *frame, st *State, x *ssa.MapUpdate, pos string) {
	c := e.C
	m := f.get(x.Map)
	m.Typ = x.Map.Type()
	key := f.get(x.Key)
	val := f.get(x.Value)
	if len(key.Terms) != 1 {
		panic(reject("map update with composite key"))
	}
	e.oblige(st, "nil", "", c.Not(c.Eq(m.Terms[0], c.IntLit(0))), pos, "assignment to entry in nil map")
	e.frameCheckRef(f, st, m.Terms[0], "map", pos)
	e.ownStore(st, m.Terms[0], Val{Typ: x.Value.Type(), Terms: val.Terms}, pos, "map entry")
	e.mapSet(st, m, key.Terms[0], val)
}

func (e *Engine) mapSet(st *State, m Val, key *smt.Term, val Val) {
	c := e.C
	mn := e.mapInfo(m.Typ)
	ref := m.Terms[0]
	has := e.heapArr(st, mn.has, smt.Array(smt.Int, smt.Array(mn.ks, smt.Bool)))
	had := c.Select(c.Select(has, ref), key)
	st.Heap[mn.has] = c.Store(has, ref, c.Store(c.Select(has, ref), key, c.True()))
	ln := e.heapArr(st, mn.ln, smt.Array(smt.Int, smt.BV(64)))
	st.Heap[mn.ln] = c.Store(ln, ref, c.Op("bvadd", smt.BV(64), c.Select(ln, ref), c.Ite(had, c.BVLit64(0, 64), c.BVLit64(1, 64))))
	for k, s := range mn.vs {
		arr := e.heapArr(st, mn.vals[k], smt.Array(smt.Int, smt.Array(mn.ks, s)))
		st.Heap[mn.vals[k]] = c.Store(arr, ref, c.Store(c.Select(arr, ref), key, val.Terms[k]))
	}
}

func (e *Engine) mapDelete(st *State, m Val, key *smt.Term) {
	c := e.C
	mn := e.mapInfo(m.Typ)
	ref := m.Terms[0]
	has := e.heapArr(st, mn.has, smt.Array(smt.Int, smt.Array(mn.ks, smt.Bool)))
	had := c.And(c.Not(c.Eq(ref, c.IntLit(0))), c.Select(c.Select(has, ref), key))
	ln := e.heapArr(st, mn.ln, smt.Array(smt.Int, smt.BV(64)))
	// deleting from a nil map is a no-op; stores at ref 0 are harmless because reads guard on ref != 0
	st.Heap[mn.has] = c.Store(has, ref, c.Store(c.Select(has, ref), key, c.False()))
	st.Heap[mn.ln] = c.Store(ln, ref, c.Op("bvsub", smt.BV(64), c.Select(ln, ref), c.Ite(had, c.BVLit64(1, 64), c.BVLit64(0, 64))))
}

func (e *Engine) mapFamilies(t types.Type) []string {
	mn := e.mapInfo(t)
	return append([]string{mn.has, mn.ln}, mn.vals...)
}

// range over maps: the iterator is the map itself; each Next yields an arbitrary present key.
func (e *Engine) rangeInit(f *frame, st *State, x *ssa.Range) Val {
	if isString(x.X.Type()) {
		panic(reject("range over string"))
	}
	m := f.get(x.X)
	return Val{Typ: x.X.Type(), Terms: m.Terms}
}

func (e *Engine) rangeNext(f *frame, st *State, x *ssa.Next) Val {
	c := e.C
	if x.IsString {
		panic(reject("range over string"))
	}
	it := f.get(x.Iter)
	mn := e.mapInfo(it.Typ)
	ok := c.Fresh("range.ok", smt.Bool)
	key := e.fresh("range.key", mn.key)
	tup := x.Type().(*types.Tuple)
	out := Val{Typ: x.Type(), Terms: []*smt.Term{ok}}
	h := e.mapHas(st, it, key.Terms[0])
	e.assume(st, c.Implies(ok, h))
	// key / value may be invalid types when unused
	if tup.At(1).Type() != nil && !isInvalid(tup.At(1).Type()) {
		out.Terms = append(out.Terms, key.Terms...)
	}
	if tup.At(2).Type() != nil && !isInvalid(tup.At(2).Type()) {
		v, _ := e.mapGet(st, it, key.Terms[0])
		out.Terms = append(out.Terms, v.Terms...)
	}
	return out
}

func isInvalid(t types.Type) bool {
	b, ok := t.(*types.Basic)
	return ok && b.Kind() == types.Invalid
}

// divMod introduces quotient and remainder of a 64-bit division by their defining equations.
func (e *Engine) divMod(st *State, x, y *smt.Term, signed bool) (*smt.Term, *smt.Term) {
	c := e.C
	key := fmt.Sprintf("%d/%d/%v", x.ID(), y.ID(), signed)
	if e.divCache == nil {
		e.divCache = map[string][2]*smt.Term{}
	}
	if qr, ok := e.divCache[key]; ok {
		return qr[0], qr[1]
	}
	q := c.Fresh("div.q", smt.BV(64))
	r := c.Fresh("div.r", smt.BV(64))
	const W = 130
	ext := func(t *smt.Term) *smt.Term { return c.Extend(t, W, signed) }
	s := smt.BV(W)
	eq := c.Eq(ext(x), c.Op("bvadd", s, c.Op("bvmul", s, ext(q), ext(y)), ext(r)))
	var fact *smt.Term
	if signed {
		z := c.BVLit64(0, 64)
		abs := func(t *smt.Term) *smt.Term { // |t| as W-bit value
			et := ext(t)
			return c.Ite(c.Op("bvslt", smt.Bool, t, z), c.Op("bvneg", s, et), et)
		}
		sameSign := c.Or(c.Eq(r, z), c.Eq(c.Op("bvslt", smt.Bool, r, z), c.Op("bvslt", smt.Bool, x, z)))
		small := c.Op("bvslt", smt.Bool, abs(r), abs(y))
		minInt := c.BVLit(new(big.Int).Lsh(big.NewInt(1), 63), 64)
		wrap := c.And(c.Eq(x, minInt), c.Eq(y, c.BVLit64(-1, 64)))
		fact = c.Ite(wrap, c.And(c.Eq(q, minInt), c.Eq(r, z)), c.And(eq, sameSign, small))
	} else {
		fact = c.And(eq, c.Op("bvult", smt.Bool, r, y))
	}
	// the facts hold whenever y != 0 (division by zero panics before the result is used)
	e.assumeGlobal(c.Implies(c.Not(c.Eq(y, c.BVLit64(0, 64))), fact))
	e.divCache[key] = [2]*smt.Term{q, r}
	return q, r
}

// inTopPackage: the instruction being executed belongs to the package of the function under verification.
func (e *Engine) inTopPackage() bool {
	if e.curFrame == nil || e.top == nil {
		return true
	}
	return pkgPathOf(e.curFrame.fn) == pkgPathOf(e.top)
}
