package vc

import (
	"fmt"
	"go/types"

	"golang.org/x/tools/go/ssa"

	"verif/internal/smt"
)

// Sequential model of buffered channels of scalar elements (C09/C10: the pool of free stream ids).
//
// A channel is an object with a capacity, a closed flag, a length and a multiset of pending elements
// (cnt[x] = how many times x is queued). FIFO order is abstracted away: a receive delivers SOME queued element
// (every behaviour of the real queue is one of the model's). The model is sequential: it says what one operation
// does to the channel when no other goroutine interferes in between; blocking operations that cannot proceed end
// the path (nothing after them is reachable in a sequential run).
//
//	ghost families   C<T>.cnt : chan -> (T -> BV64)    C<T>.len, C<T>.cap : chan -> BV64    C<T>.closed : chan -> Bool
//
// The link "len = sum of cnt" is kept as two facts used where needed: a receive from a non-empty channel yields an
// element with cnt > 0, and an empty channel holds nothing (assumed when len == 0 is learnt).
type chanInfo struct {
	elem             types.Type
	es               smt.Sort
	cnt, ln, cp, cls string
}

// modelledChanType: channels of integer elements, of pointers (the element is the object reference: C10, channels of
// *frame.Frame) and of empty structs (signal channels such as ctx.Done(); one dummy element value) are modelled; all
// others stay opaque.
func modelledChanType(t types.Type) bool {
	ch, ok := types.Unalias(t).Underlying().(*types.Chan)
	if !ok {
		return false
	}
	if isInteger(ch.Elem()) {
		return true
	}
	switch u := types.Unalias(ch.Elem()).Underlying().(type) {
	case *types.Pointer:
		return true
	case *types.Struct:
		return u.NumFields() == 0
	}
	return false
}

// chanElemTerm: the model's element value for a sent value (signal channels carry one dummy value).
func chanElemTerm(c *smt.Ctx, v Val) *smt.Term {
	if len(v.Terms) == 0 {
		return c.IntLit(0)
	}
	return v.Terms[0]
}

func (e *Engine) chanInfoOf(t types.Type) (*chanInfo, bool) {
	if !modelledChanType(t) {
		return nil, false
	}
	ch := types.Unalias(t).Underlying().(*types.Chan)
	cs := e.comps(ch.Elem())
	if len(cs) > 1 {
		return nil, false
	}
	ts := typeStr(ch.Elem())
	if len(cs) == 0 {
		return &chanInfo{elem: ch.Elem(), es: smt.Int, cnt: "C<" + ts + ">.cnt", ln: "C<" + ts + ">.len", cp: "C<" + ts + ">.cap", cls: "C<" + ts + ">.closed"}, true
	}
	return &chanInfo{elem: ch.Elem(), es: cs[0], cnt: "C<" + ts + ">.cnt", ln: "C<" + ts + ">.len", cp: "C<" + ts + ">.cap", cls: "C<" + ts + ">.closed"}, true
}

func (e *Engine) chanArrs(st *State, ci *chanInfo) (cnt, ln, cp, cls *smt.Term) {
	cnt = e.heapArr(st, ci.cnt, smt.Array(smt.Int, smt.Array(ci.es, smt.BV(64))))
	ln = e.heapArr(st, ci.ln, smt.Array(smt.Int, smt.BV(64)))
	cp = e.heapArr(st, ci.cp, smt.Array(smt.Int, smt.BV(64)))
	cls = e.heapArr(st, ci.cls, smt.Array(smt.Int, smt.Bool))
	return
}

// chanValid: basic facts about a channel read from the heap or passed in.
func (e *Engine) chanValid(st *State, ci *chanInfo, ref *smt.Term) {
	c := e.C
	_, ln, cp, _ := e.chanArrs(st, ci)
	z := c.BVLit64(0, 64)
	l, k := c.Select(ln, ref), c.Select(cp, ref)
	e.assume(st, c.And(bvle(c, z, l), bvle(c, l, k), bvle(c, k, c.BVLit64(sizeBound, 64))))
}

func (e *Engine) makeChan(st *State, x *ssa.MakeChan, size Val) (Val, bool) {
	ci, ok := e.chanInfoOf(x.Type())
	if !ok {
		return Val{}, false
	}
	c := e.C
	ref := e.newRef(st)
	cnt, ln, cp, cls := e.chanArrs(st, ci)
	sz := c.Extend(size.Terms[0], 64, true)
	e.oblige(st, "alloc", "", c.And(bvle(c, c.BVLit64(0, 64), sz), bvle(c, sz, c.BVLit64(sizeBound, 64))), posOf(e.W.Prog, x), "make(chan): 0 <= size")
	st.Heap[ci.cnt] = c.Store(cnt, ref, c.Op(fmt.Sprintf("(as const %s)", smt.Array(ci.es, smt.BV(64))), smt.Array(ci.es, smt.BV(64)), c.BVLit64(0, 64)))
	st.Heap[ci.ln] = c.Store(ln, ref, c.BVLit64(0, 64))
	st.Heap[ci.cp] = c.Store(cp, ref, sz)
	st.Heap[ci.cls] = c.Store(cls, ref, c.False())
	e.note("buffered channels of scalar elements are modelled sequentially as bounded multisets (FIFO order abstracted)")
	return Val{Typ: x.Type(), Terms: []*smt.Term{ref}}, true
}

// chanSend performs a send that is known to proceed (ready has been established by the caller).
func (e *Engine) chanSend(f *frame, st *State, ci *chanInfo, ref, v *smt.Term, pos string) {
	c := e.C
	cnt, ln, _, cls := e.chanArrs(st, ci)
	e.oblige(st, "panic", "", c.Not(c.Select(cls, ref)), pos, "send on closed channel")
	e.frameCheckRef(f, st, ref, "chan", pos)
	inner := c.Select(cnt, ref)
	one := c.BVLit64(1, 64)
	st.Heap[ci.cnt] = c.Store(cnt, ref, c.Store(inner, v, bvadd(c, c.Select(inner, v), one)))
	st.Heap[ci.ln] = c.Store(ln, ref, bvadd(c, c.Select(ln, ref), one))
}

// chanRecvSome removes some queued element (len > 0 established by the caller) and returns it.
func (e *Engine) chanRecvSome(f *frame, st *State, ci *chanInfo, ref *smt.Term, pos string) *smt.Term {
	c := e.C
	cnt, ln, _, _ := e.chanArrs(st, ci)
	x := c.Fresh("recv", ci.es)
	inner := c.Select(cnt, ref)
	one := c.BVLit64(1, 64)
	e.assume(st, c.Op("bvsgt", smt.Bool, c.Select(inner, x), c.BVLit64(0, 64)))
	e.frameCheckRef(f, st, ref, "chan", pos)
	st.Heap[ci.cnt] = c.Store(cnt, ref, c.Store(inner, x, bvsub(c, c.Select(inner, x), one)))
	st.Heap[ci.ln] = c.Store(ln, ref, bvsub(c, c.Select(ln, ref), one))
	return x
}

func (e *Engine) execSend(f *frame, st *State, x *ssa.Send, pos string) bool {
	ci, ok := e.chanInfoOf(x.Chan.Type())
	if !ok {
		return false
	}
	c := e.C
	ch := f.get(x.Chan)
	v := f.get(x.X)
	ref := ch.Terms[0]
	e.chanValid(st, ci, ref)
	_, ln, cp, _ := e.chanArrs(st, ci)
	// a send on a nil channel or on a full channel blocks: in a sequential run nothing after it is reachable
	e.assume(st, c.And(c.Not(c.Eq(ref, c.IntLit(0))), c.Op("bvslt", smt.Bool, c.Select(ln, ref), c.Select(cp, ref))))
	e.note("a blocking channel operation that cannot proceed ends the sequential path")
	e.chanSend(f, st, ci, ref, chanElemTerm(c, v), pos)
	return true
}

// execRecv: v := <-ch  or  v, ok := <-ch
func (e *Engine) execRecv(f *frame, st *State, x *ssa.UnOp, pos string) (Val, bool) {
	ci, ok := e.chanInfoOf(x.X.Type())
	if !ok {
		return Val{}, false
	}
	c := e.C
	ch := f.get(x.X)
	ref := ch.Terms[0]
	e.chanValid(st, ci, ref)
	_, ln, _, cls := e.chanArrs(st, ci)
	nonEmpty := c.Op("bvsgt", smt.Bool, c.Select(ln, ref), c.BVLit64(0, 64))
	closed := c.Select(cls, ref)
	// blocks unless there is an element or the channel is closed
	e.assume(st, c.And(c.Not(c.Eq(ref, c.IntLit(0))), c.Or(nonEmpty, closed)))
	got := e.chanRecvCond(f, st, ci, ref, nonEmpty, pos)
	var vals []*smt.Term
	if zt := e.zero(ci.elem).Terms; len(zt) == 1 {
		vals = append(vals, c.Ite(nonEmpty, got, zt[0]))
	}
	if x.CommaOk {
		return Val{Typ: x.Type(), Terms: append(vals, nonEmpty)}, true
	}
	return Val{Typ: x.Type(), Terms: vals}, true
}

// chanRecvCond removes some element when cond holds (state updated under cond) and returns it.
func (e *Engine) chanRecvCond(f *frame, st *State, ci *chanInfo, ref, cond *smt.Term, pos string) *smt.Term {
	c := e.C
	cnt, ln, _, _ := e.chanArrs(st, ci)
	x := c.Fresh("recv", ci.es)
	inner := c.Select(cnt, ref)
	one := c.BVLit64(1, 64)
	e.assume(st, c.Implies(cond, c.Op("bvsgt", smt.Bool, c.Select(inner, x), c.BVLit64(0, 64))))
	if !cond.IsFalse() {
		e.frameCheckRef(f, st, ref, "chan", pos)
	}
	st.Heap[ci.cnt] = c.Store(cnt, ref, c.Ite(cond, c.Store(inner, x, bvsub(c, c.Select(inner, x), one)), inner))
	st.Heap[ci.ln] = c.Store(ln, ref, c.Ite(cond, bvsub(c, c.Select(ln, ref), one), c.Select(ln, ref)))
	return x
}

// execSelect models select statements all of whose channels are modelled. Result: (index, recvOk, recv values...).
func (e *Engine) execSelect(f *frame, st *State, x *ssa.Select, pos string) (Val, bool) {
	c := e.C
	var infos []*chanInfo
	for _, s := range x.States {
		ci, ok := e.chanInfoOf(s.Chan.Type())
		if !ok {
			return Val{}, false
		}
		infos = append(infos, ci)
	}
	n := len(x.States)
	idx := c.Fresh("select.idx", smt.BV(64))
	var ready []*smt.Term
	for k, s := range x.States {
		ci := infos[k]
		ref := f.get(s.Chan).Terms[0]
		e.chanValid(st, ci, ref)
		_, ln, cp, cls := e.chanArrs(st, ci)
		nonNil := c.Not(c.Eq(ref, c.IntLit(0)))
		if s.Dir == types.SendOnly {
			// a send on a closed channel is "ready" (and panics)
			ready = append(ready, c.And(nonNil, c.Or(c.Op("bvslt", smt.Bool, c.Select(ln, ref), c.Select(cp, ref)), c.Select(cls, ref))))
		} else {
			ready = append(ready, c.And(nonNil, c.Or(c.Op("bvsgt", smt.Bool, c.Select(ln, ref), c.BVLit64(0, 64)), c.Select(cls, ref))))
		}
	}
	// the chosen case is ready; default (index -1) only when none is; a blocking select with no ready case blocks
	var choice []*smt.Term
	for k := range x.States {
		choice = append(choice, c.And(c.Eq(idx, c.BVLit64(int64(k), 64)), ready[k]))
	}
	if !x.Blocking {
		var none []*smt.Term
		for k := range ready {
			none = append(none, c.Not(ready[k]))
		}
		choice = append(choice, c.And(c.Eq(idx, c.BVLit64(-1, 64)), c.And(none...)))
	}
	e.assume(st, c.Or(choice...))
	tup := x.Type().(*types.Tuple)
	out := Val{Typ: tup}
	out.Terms = append(out.Terms, idx)
	recvOk := c.False()
	var recvVals []*smt.Term
	nRecv := 0
	for k, s := range x.States {
		ci := infos[k]
		ref := f.get(s.Chan).Terms[0]
		chosen := c.Eq(idx, c.BVLit64(int64(k), 64))
		if s.Dir == types.SendOnly {
			_, _, _, cls := e.chanArrs(st, ci)
			e.oblige(st, "panic", "", c.Implies(chosen, c.Not(c.Select(cls, ref))), pos, "send on closed channel (select)")
			v := chanElemTerm(c, f.get(s.Send))
			cnt, ln, _, _ := e.chanArrs(st, ci)
			inner := c.Select(cnt, ref)
			one := c.BVLit64(1, 64)
			if e.quiet == 0 {
				// frame: the send happens only when chosen
				saved := st.Reach
				st.Reach = c.And(st.Reach, chosen)
				e.frameCheckRef(f, st, ref, "chan", pos)
				st.Reach = saved
			}
			st.Heap[ci.cnt] = c.Store(cnt, ref, c.Ite(chosen, c.Store(inner, v, bvadd(c, c.Select(inner, v), one)), inner))
			st.Heap[ci.ln] = c.Store(ln, ref, c.Ite(chosen, bvadd(c, c.Select(ln, ref), one), c.Select(ln, ref)))
			continue
		}
		_, ln, _, _ := e.chanArrs(st, ci)
		nonEmpty := c.Op("bvsgt", smt.Bool, c.Select(ln, ref), c.BVLit64(0, 64))
		take := c.And(chosen, nonEmpty)
		saved := st.Reach
		st.Reach = c.And(st.Reach, take)
		got := e.chanRecvCondAt(f, st, ci, ref, take, pos, saved)
		st.Reach = saved
		recvOk = c.Ite(chosen, nonEmpty, recvOk)
		nRecv++
		if zt := e.zero(ci.elem).Terms; len(zt) == 1 {
			recvVals = append(recvVals, c.Ite(take, got, zt[0]))
		}
	}
	out.Terms = append(out.Terms, recvOk)
	out.Terms = append(out.Terms, recvVals...)
	if tup.Len() != 2+nRecv {
		panic(reject(fmt.Sprintf("select: unexpected result shape (%d states)", n)))
	}
	return out, true
}

// chanRecvCondAt is chanRecvCond with the assumption recorded under the caller's reachability (not the narrowed one).
func (e *Engine) chanRecvCondAt(f *frame, st *State, ci *chanInfo, ref, cond *smt.Term, pos string, reach *smt.Term) *smt.Term {
	c := e.C
	cnt, ln, _, _ := e.chanArrs(st, ci)
	x := c.Fresh("recv", ci.es)
	inner := c.Select(cnt, ref)
	one := c.BVLit64(1, 64)
	e.assumeGlobal(c.Implies(c.And(reach, cond), c.Op("bvsgt", smt.Bool, c.Select(inner, x), c.BVLit64(0, 64))))
	e.frameCheckRef(f, st, ref, "chan", pos)
	st.Heap[ci.cnt] = c.Store(cnt, ref, c.Ite(cond, c.Store(inner, x, bvsub(c, c.Select(inner, x), one)), inner))
	st.Heap[ci.ln] = c.Store(ln, ref, c.Ite(cond, bvsub(c, c.Select(ln, ref), one), c.Select(ln, ref)))
	return x
}

// closeChan: close(ch)
func (e *Engine) closeChan(f *frame, st *State, t types.Type, ch Val, pos string) bool {
	ci, ok := e.chanInfoOf(t)
	if !ok {
		return false
	}
	c := e.C
	ref := ch.Terms[0]
	_, _, _, cls := e.chanArrs(st, ci)
	e.oblige(st, "panic", "", c.And(c.Not(c.Eq(ref, c.IntLit(0))), c.Not(c.Select(cls, ref))), pos, "close of nil or closed channel")
	e.frameCheckRef(f, st, ref, "chan", pos)
	st.Heap[ci.cls] = c.Store(cls, ref, c.True())
	return true
}
