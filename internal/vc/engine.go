package vc

import (
	"fmt"
	"go/types"
	"sort"
	"strings"

	"golang.org/x/tools/go/ssa"

	"verif/internal/smt"
)

// Obligation is one proof goal: under Assumes[:NAssume] (all guarded), Cond must be valid.
type Obligation struct {
	Name    string
	Class   string
	Cond    *smt.Term // formula that must hold (already includes reachability guard)
	NAssume int       // number of engine assumptions in force
	Detail  string
	Pos     string
	// model extraction: terms whose values describe the inputs
	Inputs []NamedTerm
	// Cover obligations are expected SAT (vacuity guards).
	ExpectSat bool
	// Lemmas: postconditions listed earlier in the same contract, usable as assumptions for this one (if one of
	// them does not hold it is reported itself, so the overall verdict is unaffected)
	Lemmas []*smt.Term
}

type NamedTerm struct {
	Name string
	T    *smt.Term
}

// State is the symbolic machine state at one program point.
type State struct {
	Reach  *smt.Term
	Heap   map[string]*smt.Term
	Alloc  *smt.Term
	Ver    map[string]int // family -> version of arrays not yet materialised in Heap
	AllVer int
}

func (s *State) clone() *State {
	h := make(map[string]*smt.Term, len(s.Heap))
	for k, v := range s.Heap {
		h[k] = v
	}
	v := make(map[string]int, len(s.Ver))
	for k, x := range s.Ver {
		v[k] = x
	}
	return &State{Reach: s.Reach, Heap: h, Alloc: s.Alloc, Ver: v, AllVer: s.AllVer}
}

func immutableFam(name string) bool {
	return strings.HasPrefix(name, "B<") || strings.HasPrefix(name, "P<")
}

func family(name string) string {
	if i := strings.LastIndex(name, ">"); i >= 0 {
		return name[:i+1]
	}
	return name
}

// unresolved returns the constant standing for heap array name in state s when it has not been touched since
// the last havoc of its family.
func (e *Engine) unresolved(s *State, name string) *smt.Term {
	v := s.Ver[family(name)]
	if s.AllVer > v && !immutableFam(name) {
		v = s.AllVer
	}
	return e.C.Const(fmt.Sprintf("%s@%d", name, v), e.heapSorts[name])
}

// havocFamilies forgets everything about the given heap families ("*" = all but boxes).
func (e *Engine) havocFamilies(st *State, fams []string) {
	e.version++
	for _, fam := range fams {
		if fam == "*" {
			st.AllVer = e.version
			for n := range st.Heap {
				if !immutableFam(n) {
					delete(st.Heap, n)
				}
			}
			continue
		}
		st.Ver[fam] = e.version
		for n := range st.Heap {
			if family(n) == fam {
				delete(st.Heap, n)
			}
		}
	}
}

// sizeBound bounds in-memory element counts and stream lengths (user-space address space of amd64).
const sizeBound = 1 << 47

// Engine verifies one function (one SMT context).
type Engine struct {
	C            *smt.Ctx
	W            *World
	compCache    map[string][]smt.Sort
	strLits      map[string]*smt.Term
	strLitOrder  []string
	typeTags     map[string]int
	tagTypes     []types.Type
	heapSorts    map[string]smt.Sort
	Assumes      []*smt.Term
	Obls         []*Obligation
	Extra        []string // raw axioms
	top          *ssa.Function
	classCount   map[string]int
	inlineDepth  int
	Notes        []string // assumed contracts used, abstractions applied
	noteSeen     map[string]bool
	sweepOnly    bool // only safety obligations (no contracts needed)
	Init         *State
	namePrefix   string
	UsedModels   map[string]bool
	curFrame     *frame
	version      int
	nameSeen     map[string]int
	divCache     map[string][2]*smt.Term
	constTables  map[string]bool
	wstreamKeys  []*smt.Term // writers the function under verification may append to (assigns wstream(..))
	topFrameRule func(e *Engine, st *State, ref *smt.Term, kind string, pos string)
	CheckNarrow  bool      // emit 'narrow' obligations for value-changing integer conversions
	FoldFrame    bool      // emit the fold frame axiom (contract directive foldframe)
	AbstractConc bool      // go statements ignored, channels opaque (constructor postconditions only)
	OwnCheck     bool      // ownership discipline of deep copies (C17)
	ShareCheck   bool      // sharing discipline of codecs (C18)
	UseTokens    bool      // token view of streams (tokens.go), opted into by the contract under verification
	selectRole   map[int]string // array reads produced by wbyte ("w") / rbyte ("r") in contracts
	Share        *shareInfo
	ownAlloc0    *smt.Term // allocation counter at entry
	quiet        int
	noAssume     int // inside quantifier bodies side facts would capture the bound variable
	implQueries  map[string]types.Type
}

func NewEngine(w *World) *Engine {
	e := &Engine{C: smt.NewCtx(), W: w, compCache: map[string][]smt.Sort{}, strLits: map[string]*smt.Term{},
		typeTags: map[string]int{}, heapSorts: map[string]smt.Sort{}, classCount: map[string]int{},
		noteSeen: map[string]bool{}, UsedModels: map[string]bool{}, implQueries: map[string]types.Type{}, nameSeen: map[string]int{}}
	e.C.Sorts["Str"] = true
	return e
}

func (e *Engine) note(s string) {
	if !e.noteSeen[s] {
		e.noteSeen[s] = true
		e.Notes = append(e.Notes, s)
	}
}

func (e *Engine) assume(st *State, t *smt.Term) {
	if t.IsTrue() || e.noAssume > 0 {
		return
	}
	e.Assumes = append(e.Assumes, e.C.Implies(st.Reach, t))
}

func (e *Engine) assumeGlobal(t *smt.Term) {
	if !t.IsTrue() {
		e.Assumes = append(e.Assumes, t)
	}
}

// oblige records a goal "reach ⇒ cond".
func (e *Engine) oblige(st *State, class, label string, cond *smt.Term, pos string, detail string) *Obligation {
	if e.quiet > 0 {
		return &Obligation{}
	}
	defer func() {
		// execution continues past a run-time check only if it passed
		switch class {
		case "index", "nil", "alloc", "div", "typeassert", "shift":
			st.Reach = e.C.And(st.Reach, cond)
		}
	}()
	if label == "" {
		e.classCount[class]++
		label = fmt.Sprintf("%d", e.classCount[class])
	}
	name := e.namePrefix + ":" + class + ":" + label
	if n := e.nameSeen[name]; n > 0 {
		e.nameSeen[name] = n + 1
		name = fmt.Sprintf("%s~%d", name, n+1)
	} else {
		e.nameSeen[name] = 1
	}
	o := &Obligation{Name: name, Class: class, Cond: e.C.Implies(st.Reach, cond), NAssume: len(e.Assumes), Pos: pos, Detail: detail}
	e.Obls = append(e.Obls, o)
	return o
}

func (e *Engine) typeTag(t types.Type) int {
	k := typeStr(t)
	if id, ok := e.typeTags[k]; ok {
		return id
	}
	id := len(e.typeTags) + 1
	e.typeTags[k] = id
	e.tagTypes = append(e.tagTypes, t)
	return id
}

// heap access ---------------------------------------------------------------------------------

func (e *Engine) heapArr(st *State, name string, s smt.Sort) *smt.Term {
	if t, ok := st.Heap[name]; ok {
		return t
	}
	if old, ok := e.heapSorts[name]; ok && old != s {
		panic(fmt.Sprintf("heap array %s sort %s vs %s", name, old, s))
	}
	e.heapSorts[name] = s
	t := e.unresolved(st, name)
	st.Heap[name] = t
	return t
}

func cellName(root types.Type, k int) string { return fmt.Sprintf("H<%s>#%d", typeStr(root), k) }
func elemName(el types.Type, k int) string   { return fmt.Sprintf("E<%s>#%d", typeStr(el), k) }
func boxName(t types.Type, k int) string     { return fmt.Sprintf("B<%s>#%d", typeStr(t), k) }

// arrayElem returns the element type when root is an array type (pointer-to-array addresses a backing array).
func arrayElem(root types.Type) (types.Type, bool) {
	if at, ok := types.Unalias(root).Underlying().(*types.Array); ok {
		return at.Elem(), true
	}
	return nil, false
}

// load reads the pointee of p (a pointer value with PtrInfo) of static type t.
func (e *Engine) load(st *State, p Val, t types.Type) Val {
	pi := p.Ptr
	if pi == nil {
		panic(reject("load through pointer without address info"))
	}
	ref := p.Terms[0]
	out := Val{Typ: t}
	if el, ok := arrayElem(pi.Root); ok && !pi.IsElem {
		// whole-array load from backing store
		for k, s := range e.comps(el) {
			arr := e.heapArr(st, elemName(el, k), smt.Array(smt.Int, smt.Array(smt.BV(64), s)))
			out.Terms = append(out.Terms, e.C.Select(arr, ref))
		}
		return out
	}
	rootComps := e.comps(pi.Root)
	for k := pi.Off; k < pi.Off+pi.N; k++ {
		s := rootComps[k]
		if pi.IsElem {
			arr := e.heapArr(st, elemName(pi.Root, k), smt.Array(smt.Int, smt.Array(smt.BV(64), s)))
			out.Terms = append(out.Terms, e.C.Select(e.C.Select(arr, ref), pi.Elem))
		} else {
			arr := e.heapArr(st, cellName(pi.Root, k), smt.Array(smt.Int, s))
			out.Terms = append(out.Terms, e.C.Select(arr, ref))
		}
	}
	e.wrapPtr(&out)
	e.assumeLoaded(st, out)
	e.shareLoaded(st, ref, out)
	return out
}

// assumeLoaded records the heap-closure facts for references read from memory: they are nil or allocated.
func (e *Engine) assumeLoaded(st *State, v Val) {
	switch types.Unalias(v.Typ).Underlying().(type) {
	case *types.Pointer, *types.Map:
		e.assume(st, e.C.And(e.C.Op(">=", smt.Bool, v.Terms[0], e.C.IntLit(0)), e.C.Op("<", smt.Bool, v.Terms[0], st.Alloc)))
	case *types.Slice:
		e.assume(st, e.validSlice(st, v))
	case *types.Interface:
		e.assume(st, e.validIface(st, v))
	}
}

func (e *Engine) validSlice(st *State, v Val) *smt.Term {
	c := e.C
	z := c.BVLit64(0, 64)
	return c.And(
		c.Op(">=", smt.Bool, v.Terms[0], c.IntLit(0)), c.Op("<", smt.Bool, v.Terms[0], st.Alloc),
		c.Op("bvsle", smt.Bool, z, v.Terms[1]), c.Op("bvsle", smt.Bool, z, v.Terms[2]), c.Op("bvsle", smt.Bool, v.Terms[2], v.Terms[3]),
		// total extent fits: off+cap does not overflow (sizes < 2^62)
		c.Op("bvsle", smt.Bool, v.Terms[1], c.BVLit64(sizeBound, 64)), c.Op("bvsle", smt.Bool, v.Terms[3], c.BVLit64(sizeBound, 64)),
		c.Implies(c.Eq(v.Terms[0], c.IntLit(0)), c.And(c.Eq(v.Terms[2], z), c.Eq(v.Terms[3], z), c.Eq(v.Terms[1], z))),
	)
}

func (e *Engine) validIface(st *State, v Val) *smt.Term {
	c := e.C
	if e.OwnCheck {
		e.note("interface-typed fields of copied structures do not hold typed nil pointers")
		return c.And(
			c.Op(">=", smt.Bool, v.Terms[0], c.IntLit(0)),
			c.Op(">=", smt.Bool, v.Terms[1], c.IntLit(0)), c.Op("<", smt.Bool, v.Terms[1], st.Alloc),
			c.Eq(c.Eq(v.Terms[0], c.IntLit(0)), c.Eq(v.Terms[1], c.IntLit(0))),
		)
	}
	return c.And(
		c.Op(">=", smt.Bool, v.Terms[0], c.IntLit(0)),
		c.Op(">=", smt.Bool, v.Terms[1], c.IntLit(0)), c.Op("<", smt.Bool, v.Terms[1], st.Alloc),
		c.Implies(c.Eq(v.Terms[0], c.IntLit(0)), c.Eq(v.Terms[1], c.IntLit(0))),
	)
}

// store writes v through pointer p.
func (e *Engine) store(st *State, p Val, v Val) {
	pi := p.Ptr
	if pi == nil {
		panic(reject("store through pointer without address info"))
	}
	ref := p.Terms[0]
	if el, ok := arrayElem(pi.Root); ok && !pi.IsElem {
		for k, s := range e.comps(el) {
			name := elemName(el, k)
			arr := e.heapArr(st, name, smt.Array(smt.Int, smt.Array(smt.BV(64), s)))
			st.Heap[name] = e.C.Store(arr, ref, v.Terms[k])
		}
		return
	}
	if !pi.IsElem && pi.Off == 0 && typeStr(pi.Root) == "math/big.Int" && pi.N == len(e.comps(pi.Root)) {
		// assigning a whole big.Int value: the zero value denotes 0, anything else is unknown
		zero := true
		for k, t := range v.Terms {
			if t != e.zeroOf(e.comps(pi.Root)[k]) {
				zero = false
			}
		}
		if zero {
			e.bigSet(st, ref, e.C.BVLit64(0, bigW))
		} else {
			e.bigSet(st, ref, e.C.Fresh("big.assigned", smt.BV(bigW)))
		}
	}
	rootComps := e.comps(pi.Root)
	if len(v.Terms) != pi.N {
		panic(fmt.Sprintf("store arity %d vs %d (%s into %s)", len(v.Terms), pi.N, v.Typ, pi.Root))
	}
	for i := 0; i < pi.N; i++ {
		k := pi.Off + i
		s := rootComps[k]
		if pi.IsElem {
			name := elemName(pi.Root, k)
			arr := e.heapArr(st, name, smt.Array(smt.Int, smt.Array(smt.BV(64), s)))
			inner := e.C.Select(arr, ref)
			st.Heap[name] = e.C.Store(arr, ref, e.C.Store(inner, pi.Elem, v.Terms[i]))
		} else {
			name := cellName(pi.Root, k)
			arr := e.heapArr(st, name, smt.Array(smt.Int, s))
			st.Heap[name] = e.C.Store(arr, ref, v.Terms[i])
		}
	}
}

// heapNamesOf lists the heap arrays that a store through a pointer to root (cell or elem) touches.
func (e *Engine) heapNamesOf(root types.Type, isElem bool) []string {
	var out []string
	if el, ok := arrayElem(root); ok && !isElem {
		for k := range e.comps(el) {
			out = append(out, elemName(el, k))
		}
		return out
	}
	for k := range e.comps(root) {
		if isElem {
			out = append(out, elemName(root, k))
		} else {
			out = append(out, cellName(root, k))
		}
	}
	return out
}

// newRef allocates a fresh reference.
func (e *Engine) newRef(st *State) *smt.Term {
	r := st.Alloc
	st.Alloc = e.C.Op("+", smt.Int, st.Alloc, e.C.IntLit(1))
	return r
}

// allocCell allocates a zero-initialised object of type t and returns a pointer to it.
func (e *Engine) allocCell(st *State, t types.Type) Val {
	ref := e.newRef(st)
	p := Val{Typ: types.NewPointer(t), Terms: []*smt.Term{ref}, Ptr: e.wholePtr(t)}
	e.store(st, p, e.zero(t))
	if typeStr(t) == "math/big.Int" {
		e.bigSet(st, ref, e.C.BVLit64(0, bigW))
	}
	if ts := typeStr(t); ts == "bytes.Buffer" || ts == "bytes.Reader" {
		// the zero Buffer is empty
		e.ghostSet(st, gCount, ref, e.C.BVLit64(0, 64))
		e.ghostSet(st, gPos, ref, e.C.BVLit64(0, 64))
		e.ghostSet(st, pAvail, ref, e.C.BVLit64(0, 64))
		e.tokFresh(st, ref)
	}
	return p
}

// merge joins states (with mutually exclusive edge conditions).
func (e *Engine) merge(conds []*smt.Term, states []*State) *State {
	if len(states) == 1 {
		s := states[0].clone()
		s.Reach = conds[0]
		return s
	}
	out := &State{Heap: map[string]*smt.Term{}, Ver: map[string]int{}}
	out.Reach = e.C.Or(conds...)
	// versions: arrays absent from every state must resolve identically; materialise those whose versions differ
	for _, s := range states {
		for fam := range s.Ver {
			out.Ver[fam] = 0
		}
	}
	differ := map[string]bool{}
	for fam := range out.Ver {
		v0 := effVer(states[0], fam)
		same := true
		for _, s := range states[1:] {
			if effVer(s, fam) != v0 {
				same = false
			}
		}
		if same {
			out.Ver[fam] = states[0].Ver[fam]
		} else {
			differ[fam] = true
		}
	}
	out.AllVer = states[0].AllVer
	for _, s := range states[1:] {
		if s.AllVer != out.AllVer {
			// different global havoc histories: materialise every known array
			for n := range e.heapSorts {
				differ[family(n)] = true
			}
			if s.AllVer > out.AllVer {
				out.AllVer = s.AllVer
			}
		}
	}
	names := map[string]bool{}
	for _, s := range states {
		for n := range s.Heap {
			names[n] = true
		}
	}
	for n := range e.heapSorts {
		if differ[family(n)] {
			names[n] = true
		}
	}
	if len(differ) > 0 {
		// after materialising, later-created arrays of these families start from a fresh common version
		e.version++
		for fam := range differ {
			out.Ver[fam] = e.version
		}
	}
	var sorted []string
	for n := range names {
		sorted = append(sorted, n)
	}
	sort.Strings(sorted)
	for _, n := range sorted {
		var cur *smt.Term
		for i := len(states) - 1; i >= 0; i-- {
			t, ok := states[i].Heap[n]
			if !ok {
				t = e.unresolved(states[i], n)
			}
			if cur == nil {
				cur = t
			} else {
				cur = e.C.Ite(conds[i], t, cur)
			}
		}
		out.Heap[n] = cur
	}
	var cur *smt.Term
	for i := len(states) - 1; i >= 0; i-- {
		if cur == nil {
			cur = states[i].Alloc
		} else {
			cur = e.C.Ite(conds[i], states[i].Alloc, cur)
		}
	}
	out.Alloc = cur
	return out
}

func (e *Engine) mergeVals(conds []*smt.Term, vals []Val) Val {
	out := Val{Typ: vals[0].Typ}
	n := len(vals[0].Terms)
	for k := 0; k < n; k++ {
		var cur *smt.Term
		for i := len(vals) - 1; i >= 0; i-- {
			if len(vals[i].Terms) != n {
				panic(fmt.Sprintf("mergeVals arity mismatch %s vs %s", vals[0].Typ, vals[i].Typ))
			}
			if cur == nil {
				cur = vals[i].Terms[k]
			} else {
				cur = e.C.Ite(conds[i], vals[i].Terms[k], cur)
			}
		}
		out.Terms = append(out.Terms, cur)
	}
	// pointer info: all must agree
	if isPointer(out.Typ) {
		var pi *PtrInfo
		for _, v := range vals {
			if v.Ptr == nil {
				continue
			}
			if pi == nil {
				pi = v.Ptr
			} else if !samePtrShape(pi, v.Ptr) {
				panic(reject("phi of pointers with different interior addresses"))
			}
		}
		if pi != nil && pi.IsElem {
			// merge the element index as well
			var cur *smt.Term
			for i := len(vals) - 1; i >= 0; i-- {
				idx := pi.Elem
				if vals[i].Ptr != nil {
					idx = vals[i].Ptr.Elem
				}
				if cur == nil {
					cur = idx
				} else {
					cur = e.C.Ite(conds[i], idx, cur)
				}
			}
			cp := *pi
			cp.Elem = cur
			pi = &cp
		}
		out.Ptr = pi
		if out.Ptr == nil {
			e.wrapPtr(&out)
		}
	}
	// statically known function values survive if identical
	same := true
	for _, v := range vals {
		if v.Fn != vals[0].Fn {
			same = false
		}
	}
	if same {
		out.Fn = vals[0].Fn
		out.Binds = vals[0].Binds
	}
	return out
}

func effVer(s *State, fam string) int {
	v := s.Ver[fam]
	if s.AllVer > v && !immutableFam(fam) {
		v = s.AllVer
	}
	return v
}

func samePtrShape(a, b *PtrInfo) bool {
	return typeStr(a.Root) == typeStr(b.Root) && a.IsElem == b.IsElem && a.Off == b.Off && a.N == b.N
}

func posOf(prog *ssa.Program, in ssa.Instruction) string {
	p := prog.Fset.Position(in.Pos())
	if !p.IsValid() {
		return ""
	}
	return fmt.Sprintf("%s:%d", strings.TrimPrefix(p.Filename, "/repo/"), p.Line)
}

func (e *Engine) markSelectRole(t *smt.Term, role string) {
	if e.selectRole == nil {
		e.selectRole = map[int]string{}
	}
	e.selectRole[t.ID()] = role
}
