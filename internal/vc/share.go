package vc

import (
	"fmt"
	"go/types"
	"strings"

	"golang.org/x/tools/go/ssa"

	"verif/internal/smt"
)

// Sharing discipline for codecs (C18). A codec, compressor or data-type singleton is shared by every goroutine that
// encodes or decodes; what a call may write is therefore restricted to
//
//	(a) memory it allocated itself, and
//	(b) memory owned by the caller: the objects its non-codec arguments denote and whatever is reachable from them
//	    in the pre-state (the frame, message, value, destination, reader or writer handed in).
//
// The receiver of a method whose receiver type is a shared type (implements one of the codec / compressor / data-type
// interfaces), package-level variables, and anything loaded from them are in neither class, so a store into them
// has no proof and fails the obligation  share: "target is fresh or caller-owned".
//
// own(ref) is an uninterpreted predicate: assumed for the reference components of the non-shared parameters and free
// variables, propagated by loads from pre-existing owned objects (closure under reachability), checked for every
// store, map update, in-place append, copy destination, stream write and contract assigns-target, and for every
// argument handed to a callee that is not executed in place (the callee assumes the same about its parameters).
type shareInfo struct {
	alloc0 *smt.Term
}

func (e *Engine) own(ref *smt.Term) *smt.Term { return e.C.App("own", smt.Bool, ref) }

var sharedIfaceNames = map[string][]string{
	"frame":       {"Codec", "RawCodec", "Encoder", "Decoder", "RawEncoder", "RawDecoder", "RawConverter", "BodyCompressor"},
	"segment":     {"Codec", "Encoder", "Decoder", "PayloadCompressor"},
	"message":     {"Codec", "Encoder", "Decoder"},
	"datacodec":   {"Codec", "Encoder", "Decoder"},
	"datatype":    {"DataType"},
	"client":      {},
	"compression": {},
}

// sharedIfaces lists the interfaces whose implementations are shared between goroutines.
func (w *World) sharedIfaces() []*types.Interface {
	w.sharedOnce.Do(w.initSharedIfaces)
	return w.sharedIfs
}

func (w *World) initSharedIfaces() {
	for _, p := range w.Pkgs {
		if !strings.HasPrefix(p.PkgPath, repoPrefix) {
			continue
		}
		for _, n := range sharedIfaceNames[p.Types.Name()] {
			if tn, ok := p.Types.Scope().Lookup(n).(*types.TypeName); ok {
				if it, ok := tn.Type().Underlying().(*types.Interface); ok && it.NumMethods() > 0 {
					w.sharedIfs = append(w.sharedIfs, it)
				}
			}
		}
	}
}

// sharedType: values of t (or *t) are codec-like objects used by many goroutines at once.
func (w *World) sharedType(t types.Type) bool {
	t = types.Unalias(t)
	if _, isI := t.Underlying().(*types.Interface); isI {
		return false
	}
	for _, it := range w.sharedIfaces() {
		if types.Implements(t, it) {
			return true
		}
		if _, isP := t.Underlying().(*types.Pointer); !isP && types.Implements(types.NewPointer(t), it) {
			return true
		}
	}
	return false
}

// sharedRecv: fn is a method whose receiver is a shared object.
func (w *World) sharedRecv(fn *ssa.Function) bool {
	r := fn.Signature.Recv()
	return r != nil && w.sharedType(r.Type())
}

// sharedValueType: values of this static type denote shared objects (a codec, compressor or data type, or an
// interface of that family): never writable, whoever holds them.
func (w *World) sharedValueType(t types.Type) bool {
	t = types.Unalias(t)
	if it, ok := t.Underlying().(*types.Interface); ok {
		for _, s := range w.sharedIfaces() {
			if types.Identical(it, s) {
				return true
			}
		}
		return false
	}
	if _, ok := t.Underlying().(*types.Pointer); ok {
		return w.sharedType(t)
	}
	return false
}

// ownAssume records own(x) for the reference components of v.
func (e *Engine) ownAssume(v Val) {
	if e.W.sharedValueType(v.Typ) {
		return
	}
	refs, _ := e.refComps(v.Typ, 0, "")
	for _, r := range refs {
		if r.idx < len(v.Terms) {
			e.assumeGlobal(e.own(v.Terms[r.idx]))
		}
	}
}

// shareLoaded: references read out of a pre-existing caller-owned object are caller-owned.
func (e *Engine) shareLoaded(st *State, obj *smt.Term, v Val) {
	if e.Share == nil || len(v.Terms) == 0 {
		return
	}
	refs, _ := e.refComps(v.Typ, 0, "")
	c := e.C
	for _, r := range refs {
		if r.idx < len(v.Terms) {
			e.assume(st, c.Implies(c.And(c.Op("<", smt.Bool, obj, e.Share.alloc0), e.own(obj)), e.own(v.Terms[r.idx])))
		}
	}
}

// shareRule is the write rule.
func (e *Engine) shareRule(st *State, ref *smt.Term, kind, pos string) {
	c := e.C
	e.oblige(st, "share", "", c.Or(c.Op(">=", smt.Bool, ref, e.Share.alloc0), e.own(ref)), pos,
		"write to "+kind+" goes to memory allocated by this call or owned by the caller (not to the shared receiver, a package-level variable or anything reached from them)")
}

// shareArgs is the call-site half: what a callee not executed in place may write through must be fresh or caller-owned.
func (e *Engine) shareArgs(st *State, fn *ssa.Function, sig *types.Signature, args []Val, key, pos string) {
	if e.Share == nil || e.quiet > 0 {
		return
	}
	c := e.C
	first := 0
	if sig.Recv() != nil && len(args) > 0 {
		if e.W.sharedType(sig.Recv().Type()) || (fn != nil && !e.W.mayWriteParam(fn, 0)) {
			first = 1
		}
	}
	for i := first; i < len(args); i++ {
		if fn != nil && !e.W.mayWriteParam(fn, i) {
			continue
		}
		if e.W.sharedValueType(args[i].Typ) {
			continue // the callee gets no permission to write shared-typed parameters (see ownAssume)
		}
		if fn == nil && !externalMayWrite(key, i) {
			continue
		}
		refs, _ := e.refComps(args[i].Typ, 0, "")
		for _, r := range refs {
			if r.idx >= len(args[i].Terms) {
				continue
			}
			x := args[i].Terms[r.idx]
			e.oblige(st, "share", fmt.Sprintf("arg%d%s@%s", i, r.path, callOrd(e, "share:"+key)), c.Or(c.Eq(x, c.IntLit(0)), c.Op(">=", smt.Bool, x, e.Share.alloc0), e.own(x)), pos,
				fmt.Sprintf("argument %d of %s (which the callee may write through) is fresh or caller-owned", i, key))
		}
	}
}

// shareBinds: the captured variables a closure may write through must be writable where the closure is made.
func (e *Engine) shareBinds(st *State, fn *ssa.Function, binds []Val, pos string) {
	if e.Share == nil || e.quiet > 0 {
		return
	}
	c := e.C
	for k, b := range binds {
		if !e.W.mayWriteParam(fn, len(fn.Params)+k) {
			continue
		}
		refs, _ := e.refComps(b.Typ, 0, "")
		for _, r := range refs {
			if r.idx >= len(b.Terms) {
				continue
			}
			x := b.Terms[r.idx]
			e.oblige(st, "share", fmt.Sprintf("capture.%s%s@%s", fn.FreeVars[k].Name(), r.path, callOrd(e, "share:closure:"+fn.Name())), c.Or(c.Eq(x, c.IntLit(0)), c.Op(">=", smt.Bool, x, e.Share.alloc0), e.own(x)), pos,
				"variable "+fn.FreeVars[k].Name()+" captured by a closure that may write through it is fresh or caller-owned")
		}
	}
}

// shareInvoke is shareArgs for a call through a repository interface: the union over the implementers.
func (e *Engine) shareInvoke(st *State, cc *ssa.CallCommon, recv Val, args []Val, key, pos string) {
	if e.Share == nil || e.quiet > 0 {
		return
	}
	c := e.C
	it, ok := types.Unalias(cc.Value.Type()).Underlying().(*types.Interface)
	if !ok {
		return
	}
	all := append([]Val{recv}, args...)
	need := make([]bool, len(all))
	if externalIface(cc.Value.Type()) {
		if readOnlyIfaceMethod(key) {
			return
		}
		for i := range need {
			need[i] = true
		}
		if key == "io.Writer.Write" && len(need) > 1 {
			need[1] = false // "Write must not modify the slice data, even temporarily"
		}
	} else {
		for _, impl := range e.W.implementers(it) {
			sel := e.W.Prog.MethodSets.MethodSet(impl).Lookup(cc.Method.Pkg(), cc.Method.Name())
			if sel == nil {
				continue
			}
			fn := e.W.Prog.MethodValue(sel)
			for i := range all {
				if i == 0 && e.W.sharedType(impl) {
					continue
				}
				if fn == nil || e.W.mayWriteParam(fn, i) {
					need[i] = true
				}
			}
		}
	}
	for i, a := range all {
		if !need[i] || (i > 0 && e.W.sharedValueType(a.Typ)) {
			continue
		}
		refs, _ := e.refComps(a.Typ, 0, "")
		for _, r := range refs {
			if r.idx >= len(a.Terms) {
				continue
			}
			x := a.Terms[r.idx]
			e.oblige(st, "share", fmt.Sprintf("arg%d%s@%s", i, r.path, callOrd(e, "share:"+key)), c.Or(c.Eq(x, c.IntLit(0)), c.Op(">=", smt.Bool, x, e.Share.alloc0), e.own(x)), pos,
				fmt.Sprintf("argument %d of %s (which an implementer may write through) is fresh or caller-owned", i, key))
		}
	}
}

// mayWriteParam is a conservative syntactic answer to "can fn store into the object its i-th parameter (receiver
// first) denotes?": false only when every use of the parameter is a read (load, field/index address that is only
// read, comparison, len/cap, range, type assertion to a non-reference, or an argument in a position the callee in
// turn never writes through). Anything else (stores, escapes, calls into unknown code) answers true.
func (w *World) mayWriteParam(fn *ssa.Function, i int) bool {
	if fn == nil || fn.Blocks == nil || i >= len(fn.Params)+len(fn.FreeVars) {
		return true
	}
	w.mwMu.Lock()
	defer w.mwMu.Unlock()
	if w.mwCache == nil {
		w.mwCache = map[string]bool{}
	}
	return w.mayWrite(fn, i, map[string]bool{})
}

func (w *World) mayWrite(fn *ssa.Function, i int, busy map[string]bool) bool {
	k := fmt.Sprintf("%s#%d", fn.String(), i)
	if v, ok := w.mwCache[k]; ok {
		return v
	}
	if busy[k] {
		return false // optimistic on the cycle; the fixpoint is re-established because any true below wins
	}
	busy[k] = true
	var pv ssa.Value
	if i < len(fn.Params) {
		pv = fn.Params[i]
	} else {
		pv = fn.FreeVars[i-len(fn.Params)]
	}
	res := w.valueWritten(pv, busy, map[ssa.Value]bool{})
	delete(busy, k)
	w.mwCache[k] = res
	return res
}

func refLike(t types.Type) bool {
	switch types.Unalias(t).Underlying().(type) {
	case *types.Pointer, *types.Slice, *types.Map, *types.Interface, *types.Chan, *types.Signature:
		return true
	}
	return false
}

// valueWritten: may the object denoted by v (a pointer/slice/map/interface value or an address derived from it)
// be written through v's uses?
func (w *World) valueWritten(v ssa.Value, busy map[string]bool, seen map[ssa.Value]bool) bool {
	if seen[v] {
		return false
	}
	seen[v] = true
	refs := v.Referrers()
	if refs == nil {
		return true
	}
	for _, u := range *refs {
		switch x := u.(type) {
		case *ssa.Store:
			if x.Addr == v {
				return true
			}
			// v stored somewhere: it escapes, unless the cell is the argument array of a read-only variadic call
			if !w.feedsReadOnlyVarargs(x.Addr) {
				return true
			}
		case *ssa.MapUpdate:
			return true
		case *ssa.UnOp:
			// load: the loaded value is a different object (reachable, not the parameter's own)
		case *ssa.FieldAddr, *ssa.IndexAddr:
			if w.valueWritten(x.(ssa.Value), busy, seen) {
				return true
			}
		case *ssa.Field, *ssa.Index, *ssa.Lookup, *ssa.Range, *ssa.Next, *ssa.Extract:
		case *ssa.BinOp:
		case *ssa.Slice:
			if w.valueWritten(x, busy, seen) {
				return true
			}
		case *ssa.Phi:
			if w.valueWritten(x, busy, seen) {
				return true
			}
		case *ssa.ChangeType:
			if w.valueWritten(x, busy, seen) {
				return true
			}
		case *ssa.ChangeInterface:
			if w.valueWritten(x, busy, seen) {
				return true
			}
		case *ssa.MakeInterface:
			if w.valueWritten(x, busy, seen) {
				return true
			}
		case *ssa.TypeAssert:
			if refLike(x.AssertedType) || x.CommaOk {
				var val ssa.Value = x
				if w.valueWritten(val, busy, seen) {
					return true
				}
			}
		case *ssa.Convert:
			if refLike(x.Type()) {
				return true
			}
		case *ssa.If, *ssa.DebugRef:
		case *ssa.Return:
			// returned to the caller: the caller decides what it does with it
		case *ssa.Call:
			if w.callWrites(&x.Call, v, busy) {
				return true
			}
		case *ssa.Defer, *ssa.Go:
			return true
		case *ssa.MakeClosure:
			return true
		default:
			return true
		}
	}
	return false
}

func (w *World) callWrites(cc *ssa.CallCommon, v ssa.Value, busy map[string]bool) bool {
	if cc.IsInvoke() {
		if cc.Value == v {
			// method call on an interface parameter: every implementer's receiver
			it, ok := types.Unalias(cc.Value.Type()).Underlying().(*types.Interface)
			if !ok || externalIface(cc.Value.Type()) {
				return !readOnlyIfaceMethod(typeStr(cc.Value.Type()) + "." + cc.Method.Name())
			}
			for _, impl := range w.implementers(it) {
				ms := w.Prog.MethodSets.MethodSet(impl)
				sel := ms.Lookup(cc.Method.Pkg(), cc.Method.Name())
				if sel == nil {
					continue
				}
				if w.sharedType(impl) {
					continue // shared receivers are never writable: the implementer is checked against that itself
				}
				if fn := w.Prog.MethodValue(sel); fn != nil && w.mayWrite(fn, 0, busy) {
					return true
				}
			}
		}
		for k, a := range cc.Args {
			if a != v {
				continue
			}
			it, ok := types.Unalias(cc.Value.Type()).Underlying().(*types.Interface)
			if !ok || externalIface(cc.Value.Type()) {
				if typeStr(cc.Value.Type())+"."+cc.Method.Name() == "io.Writer.Write" {
					continue // "Write must not modify the slice data, even temporarily" (io.Writer)
				}
				return true
			}
			for _, impl := range w.implementers(it) {
				sel := w.Prog.MethodSets.MethodSet(impl).Lookup(cc.Method.Pkg(), cc.Method.Name())
				if sel == nil {
					continue
				}
				if fn := w.Prog.MethodValue(sel); fn != nil && w.mayWrite(fn, k+1, busy) {
					return true
				}
			}
		}
		return false
	}
	fn := cc.StaticCallee()
	if b, ok := cc.Value.(*ssa.Builtin); ok {
		switch b.Name() {
		case "len", "cap", "print", "println":
			return false
		case "copy":
			return len(cc.Args) > 0 && cc.Args[0] == v
		case "append":
			// append may write into spare capacity of its first argument
			return len(cc.Args) > 0 && cc.Args[0] == v
		case "delete", "clear":
			return true
		}
		return true
	}
	if fn == nil {
		return true
	}
	if !inRepo(fn) {
		if readOnlyExternalFn(fn.String()) {
			return false
		}
		for k, a := range cc.Args {
			if a == v && externalMayWrite(fn.String(), k) {
				return true
			}
		}
		return false
	}
	if fn.Blocks == nil {
		return true
	}
	for k, a := range cc.Args {
		if a == v && w.mayWrite(fn, k, busy) {
			return true
		}
	}
	return false
}

// externalMayWrite: which arguments (receiver first) an unmodelled external function may write through.
func externalMayWrite(name string, i int) bool {
	if strings.HasPrefix(name, "(*math/big.Int).") {
		// z.Op(x, y, ...) writes the receiver z only; QuoRem and DivMod also write their last argument
		if i == 0 {
			return true
		}
		return i == 3 && (strings.HasSuffix(name, ".QuoRem") || strings.HasSuffix(name, ".DivMod"))
	}
	return true
}

func readOnlyIfaceMethod(key string) bool {
	switch key {
	case "error.Error", "fmt.Stringer.String":
		return true
	}
	return strings.HasPrefix(key, "reflect.Type.")
}

// readOnlyExternalFn: external functions that do not write through their arguments.
func readOnlyExternalFn(name string) bool {
	if readOnlyExternal(name) {
		return true
	}
	for _, p := range []string{"bytes.Equal", "bytes.Compare", "bytes.NewReader", "time.Parse", "time.ParseInLocation", "time.ParseDuration", "(*time.Location).String", "net.ParseIP", "(net.IP).", "unicode/utf8.", "(*bytes.Buffer).Len", "(*bytes.Buffer).Bytes", "(*bytes.Reader).Len"} {
		if strings.HasPrefix(name, p) {
			return true
		}
	}
	return false
}

// feedsReadOnlyVarargs: addr is an element of a local array whose only other uses are slicing it into the variadic
// argument of a function that does not write through its arguments (fmt.Errorf and friends).
func (w *World) feedsReadOnlyVarargs(addr ssa.Value) bool {
	ia, ok := addr.(*ssa.IndexAddr)
	if !ok {
		return false
	}
	al, ok := ia.X.(*ssa.Alloc)
	if !ok || al.Referrers() == nil {
		return false
	}
	for _, u := range *al.Referrers() {
		switch x := u.(type) {
		case *ssa.IndexAddr:
			if x.Referrers() != nil {
				for _, uu := range *x.Referrers() {
					if _, isStore := uu.(*ssa.Store); !isStore {
						if _, dbg := uu.(*ssa.DebugRef); !dbg {
							return false
						}
					}
				}
			}
		case *ssa.Slice:
			if x.Referrers() == nil {
				return false
			}
			for _, uu := range *x.Referrers() {
				call, ok := uu.(*ssa.Call)
				if !ok {
					if _, dbg := uu.(*ssa.DebugRef); dbg {
						continue
					}
					return false
				}
				fn := call.Call.StaticCallee()
				if fn == nil || inRepo(fn) || !readOnlyExternalFn(fn.String()) {
					return false
				}
			}
		case *ssa.DebugRef:
		default:
			return false
		}
	}
	return true
}

// usesReflect: the function manipulates values through package reflect (outside the verifier's subset for C18),
// itself or in a repository function it calls statically. Pure type inspection (reflect.TypeOf, reflect.Type
// methods) does not count: it reads immutable type descriptors.
func usesReflect(fn *ssa.Function) bool {
	return usesReflectRec(fn, map[*ssa.Function]bool{})
}

func reflectTypeOnly(name string) bool {
	return name == "reflect.TypeOf" || strings.HasPrefix(name, "(*reflect.rtype).") || strings.HasPrefix(name, "(reflect.Kind).")
}

func usesReflectRec(fn *ssa.Function, seen map[*ssa.Function]bool) bool {
	if seen[fn] {
		return false
	}
	seen[fn] = true
	for _, b := range fn.Blocks {
		for _, in := range b.Instrs {
			c, ok := in.(ssa.CallInstruction)
			if !ok {
				continue
			}
			cc := c.Common()
			if callee := cc.StaticCallee(); callee != nil {
				if pkgPathOf(callee) == "reflect" {
					if !reflectTypeOnly(callee.String()) {
						return true
					}
				} else if inRepo(callee) && callee.Blocks != nil && usesReflectRec(callee, seen) {
					return true
				}
			}
		}
	}
	for _, an := range fn.AnonFuncs {
		if usesReflectRec(an, seen) {
			return true
		}
	}
	return false
}
