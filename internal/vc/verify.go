package vc

import (
	"go/constant"
	"fmt"
	"go/types"
	"runtime/debug"
	"sort"
	"strings"

	"golang.org/x/tools/go/ssa"

	"verif/internal/smt"
)

// FuncVC is the result of generating verification conditions for one function.
type FuncVC struct {
	Key      string
	Fn       *ssa.Function
	Engine   *Engine
	Rejected string // non-empty: function is outside the subset
	Params   []NamedTerm
}

// Mode selects which obligation classes are generated.
type Mode struct {
	Contract bool // use the function's contract (requires / ensures / invariants)
	Safety   bool // keep safety obligations (always generated; dropped when false)
}

func (w *World) initState(e *Engine) *State {
	st := &State{Reach: e.C.True(), Heap: map[string]*smt.Term{}, Ver: map[string]int{}}
	st.Alloc = e.C.Const("alloc@0", smt.Int)
	e.assumeGlobal(e.C.Op(">=", smt.Bool, st.Alloc, e.C.IntLit(1)))
	return st
}

// GenVC symbolically executes fn under its contract ct (may be nil) and returns the engine holding obligations.
func (w *World) GenVC(fn *ssa.Function, ct *Contract, opts ...func(*Engine)) (res *FuncVC) {
	key := FuncKey(fn)
	e := NewEngine(w)
	for _, o := range opts {
		o(e)
	}
	e.namePrefix = key
	e.top = fn
	res = &FuncVC{Key: key, Fn: fn, Engine: e}
	defer func() {
		if r := recover(); r != nil {
			switch x := r.(type) {
			case rejectErr:
				res.Rejected = x.msg
			case error:
				res.Rejected = "error: " + x.Error()
				if !strings.HasPrefix(x.Error(), "contract expression") {
					res.Rejected += "\n" + string(debug.Stack())
				}
			default:
				res.Rejected = fmt.Sprintf("internal: %v\n%s", r, debug.Stack())
			}
		}
	}()
	st := w.initState(e)
	e.Init = st.clone()
	var args []Val
	for _, p := range fn.Params {
		v := e.fresh("in."+p.Name(), p.Type())
		e.assumeGlobal(e.validVal(st, v))
		args = append(args, v)
		famNilable := e.OwnCheck && len(args) == 1 && (deepCopyKind(fn) == "DeepCopy" || deepCopyKind(fn) == "DeepCopyMessage" || deepCopyKind(fn) == "DeepCopyDataType")
		if defaultNonNil(p.Type()) && !(ct != nil && ct.Nilable[p.Name()]) && !famNilable {
			e.assumeGlobal(e.C.Not(e.C.Eq(v.Terms[0], e.C.IntLit(0))))
			if isInterface(p.Type()) {
				// and interface parameters do not hold typed nil pointers
				e.assumeGlobal(e.C.Not(e.C.Eq(v.Terms[1], e.C.IntLit(0))))
			}
			e.note("default precondition: pointer, interface and function parameters are non-nil (interfaces do not hold typed nil pointers) unless declared nilable")
		}
	}
	res.Params = e.inputTerms(st.clone(), fn, args)
	e.ownAlloc0 = st.Alloc
	if e.OwnCheck && deepCopyKind(fn) == "DeepCopyInto" && len(args) == 2 {
		// the receiver and the destination are distinct objects
		e.assumeGlobal(e.C.Not(e.C.Eq(args[0].Terms[0], args[1].Terms[0])))
	}
	var binds []Val
	for _, fv := range fn.FreeVars {
		v := e.fresh("free."+fv.Name(), fv.Type())
		e.assumeGlobal(e.validVal(st, v))
		if isPointer(fv.Type()) {
			e.assumeGlobal(e.C.Not(e.C.Eq(v.Terms[0], e.C.IntLit(0))))
		}
		binds = append(binds, v)
	}
	// requires
	pre := &frame{engine: e, fn: fn, vals: map[ssa.Value]Val{}, params: args, entry: st, ct: ct}
	pre.setSig(fn)
	for i, p := range fn.Params {
		pre.vals[p] = args[i]
	}
	for _, cl := range w.invsFor(fn) {
		ctx := &evalCtx{e: e, f: pre, st: st, old: st, bound: map[string]EV{"self": {V: args[0]}}, pkg: typesPkgOf(fn)}
		e.assume(st, ctx.boolean(cl.Expr, cl.Text))
		e.note("type invariant assumed on the receiver: " + cl.Text)
	}
	if ct != nil {
		ctx := &evalCtx{e: e, f: pre, st: st, old: st, bound: map[string]EV{}, pkg: typesPkgOf(fn)}
		e.bindLets(ctx)
		for _, cl := range ct.Requires {
			e.assume(st, ctx.boolean(cl.Expr, cl.Text))
		}
	}
	// interface-level contracts this method has to refine: their requires may be assumed, their ensures are owed
	ifcs := w.ifaceContractsFor(fn)
	var ifFrames []*frame
	for _, ic := range ifcs {
		pf := &frame{engine: e, fn: nil, vals: map[ssa.Value]Val{}, params: args, entry: st, ct: ic}
		pf.setIfaceSig(ic.IfaceSig)
		ifFrames = append(ifFrames, pf)
		ctx := &evalCtx{e: e, f: pf, st: st, old: st, bound: map[string]EV{}, pkg: ic.TypesPkg}
		e.bindLets(ctx)
		for _, cl := range ic.Requires {
			e.assume(st, ctx.boolean(cl.Expr, cl.Text))
		}
	}
	// frame rule: with an assigns clause (its own or that of an interface contract it refines) every write must hit
	// a fresh object or a listed target
	{
		type target struct {
			ref   *smt.Term
			kind  string
			guard *smt.Term
		}
		var allowed []target
		has := false
		collect := func(c2 *Contract, fr2 *frame, pkg *types.Package) {
			if c2 == nil || !c2.HasAssigns || c2.AssignsAssumed {
				return
			}
			has = true
			ctx := &evalCtx{e: e, f: fr2, st: st, old: st, bound: map[string]EV{}, pkg: pkg}
			e.bindLets(ctx)
			for _, a := range c2.Assigns {
				for _, t := range e.assignTargets(ctx, a) {
					allowed = append(allowed, target{t.ref, t.kind, t.guard})
					if t.kind == "wstream" {
						e.wstreamKeys = append(e.wstreamKeys, t.ref)
					}
				}
			}
		}
		collect(ct, pre, typesPkgOf(fn))
		if !has {
			for k, ic := range ifcs {
				collect(ic, ifFrames[k], ic.TypesPkg)
			}
		}
		if has {
			alloc0 := st.Alloc
			e.topFrameRule = func(e *Engine, st *State, ref *smt.Term, kind string, pos string) {
				ok := []*smt.Term{e.C.Op(">=", smt.Bool, ref, alloc0)}
				for _, t := range allowed {
					if t.kind == kind {
						if t.guard != nil {
							ok = append(ok, e.C.And(t.guard, e.C.Eq(ref, t.ref)))
						} else {
							ok = append(ok, e.C.Eq(ref, t.ref))
						}
					}
				}
				e.oblige(st, "frame", "", e.C.Or(ok...), pos, "write to "+kind+" is to a fresh object or to a target listed in assigns")
			}
		}
		if e.ShareCheck {
			// sharing discipline (C18): see share.go
			e.Share = &shareInfo{alloc0: st.Alloc}
			for i, a := range args {
				if i == 0 && w.sharedRecv(fn) {
					continue
				}
				e.ownAssume(a)
			}
			for _, b := range binds {
				e.ownAssume(b)
			}
			inner := e.topFrameRule
			e.topFrameRule = func(e *Engine, st *State, ref *smt.Term, kind string, pos string) {
				if inner != nil {
					inner(e, st, ref, kind, pos)
				}
				e.shareRule(st, ref, kind, pos)
			}
		}
	}
	if ct != nil && ct.Tokens {
		e.UseTokens = true
	}
	if ct != nil && ct.FoldFrame {
		e.FoldFrame = true
	}
	e.checkFmtSelfRecursion(fn, st)
	entryAssumes := len(e.Assumes)
	rets, exit, fr := e.execFuncTop(fn, args, binds, st, ct)
	if e.OwnCheck && deepCopyKind(fn) != "" {
		e.ownPost(fn, args, rets, fr.entry, exit)
	}
	for k, ic := range ifcs {
		pf := ifFrames[k]
		pf.entry = fr.entry
		ctx := &evalCtx{e: e, f: pf, st: exit, old: fr.entry, results: rets, bound: map[string]EV{}, pkg: ic.TypesPkg}
		e.bindLets(ctx)
		for i, cl := range ic.Ensures {
			t := ctx.boolean(cl.Expr, cl.Text)
			o := e.oblige(exit, "post", "iface."+shortKey(ic.Key)+"."+clauseLabel(cl, i), t, fmt.Sprintf("%s:%d", strings.TrimPrefix(ic.File, "/repo/"), cl.Line), "refines interface contract "+ic.Key+": "+cl.Text)
			o.Inputs = append(append([]NamedTerm{}, res.Params...), resultTerms(rets)...)
		}
	}
	// cover: the precondition (and every assumption made along the way) is satisfiable
	e.Obls = append(e.Obls, &Obligation{Name: key + ":cover:requires", Class: "cover", Cond: e.C.False(), NAssume: entryAssumes, ExpectSat: true,
		Detail: "precondition is satisfiable"})
	if ct != nil {
		ctx := &evalCtx{e: e, f: fr, st: exit, old: fr.entry, results: rets, bound: map[string]EV{}, pkg: typesPkgOf(fn)}
		e.bindLets(ctx)
		var earlier []*smt.Term
		for i, cl := range ct.Ensures {
			if !e.UseTokens && usesTokens(cl) {
				continue
			}
			t := ctx.boolean(cl.Expr, cl.Text)
			// A ==> (B && C) is checked as A ==> B and A ==> C: smaller queries, same meaning
			parts := splitConj(e.C, t)
			for k, pt := range parts {
				label := clauseLabel(cl, i)
				if len(parts) > 1 {
					label = fmt.Sprintf("%s.%d", label, k+1)
				}
				o := e.oblige(exit, "post", label, pt, fmt.Sprintf("%s:%d", strings.TrimPrefix(ct.File, "/repo/"), cl.Line), "ensures "+cl.Text)
				o.Inputs = append(append([]NamedTerm{}, res.Params...), resultTerms(rets)...)
				o.Lemmas = append([]*smt.Term{}, earlier...)
				if o.Cond != nil {
					earlier = append(earlier, o.Cond)
				}
			}
		}
		if ct.HasAssigns && !ct.AssignsAssumed {
			pctx := &evalCtx{e: e, f: pre, st: fr.entry, old: fr.entry, bound: map[string]EV{}, pkg: typesPkgOf(fn)}
			e.bindLets(pctx)
			for _, a := range ct.Assigns {
				call, ok := a.Expr.(*ECall)
				if !ok {
					continue
				}
				if id, ok := call.Fn.(*EIdent); !ok || id.Name != "wstream" {
					continue
				}
				key := streamKey(pctx.eval(call.Args[0]).V)
				cond := e.appendOnly(e.ghostGet(fr.entry, gCount, key), e.ghostGet(fr.entry, gWData, key), e.ghostGet(exit, gCount, key), e.ghostGet(exit, gWData, key))
				e.oblige(exit, "post", "appendonly."+exprText(call.Args[0]), cond, "", "writer "+exprText(call.Args[0])+" is only appended to: earlier bytes are unchanged")
			}
		}
		for i, cl := range ct.Cases {
			t := ctx.boolean(cl.Expr, cl.Text)
			e.Obls = append(e.Obls, &Obligation{Name: key + ":cover:" + clauseLabel(cl, i), Class: "cover", Cond: e.C.Not(e.C.And(exit.Reach, t)), NAssume: len(e.Assumes), ExpectSat: true,
				Detail: "case is reachable: " + cl.Text})
		}
	}
	// vacuity guard for lemma functions (ghost functions whose every statement is meant to be reachable): each basic
	// block of the lemma's own body must be reachable under all assumptions made during the run. A lemma of the shape
	// "if Encode failed { return true }; ...; return e1 != nil || buf.Len() == n" whose success path has become
	// contradictory (a model assumption gone wrong) would otherwise keep "proving" its postcondition.
	if strings.Contains(key, ".lemma") && !strings.Contains(key, "$") {
		for _, b := range fn.Blocks {
			bs := fr.exit[b]
			if bs == nil || bs.Reach == nil {
				continue
			}
			if _, ok := b.Instrs[len(b.Instrs)-1].(*ssa.Return); ok && !hasCall(b) {
				// an early return that calls nothing ("return true" / "return nil, err": the encoder refused the message) is
				// legitimately unreachable for messages that cannot be refused
				continue
			}
			e.Obls = append(e.Obls, &Obligation{Name: fmt.Sprintf("%s:cover:block%d", key, b.Index), Class: "cover", Cond: e.C.Not(bs.Reach), NAssume: len(e.Assumes), ExpectSat: true,
				Pos: posOfBlock(e, b), Detail: "this statement of the lemma is reachable (the assumptions made on the way do not contradict each other)"})
		}
	}
	// string parameters: which literal (if any) the model picks
	var strSel []NamedTerm
	for i, p := range fn.Params {
		if isString(p.Type()) {
			for _, lit := range e.strLitOrder {
				strSel = append(strSel, NamedTerm{Name: p.Name() + "==" + lit, T: e.C.Eq(args[i].Terms[0], e.strLits[lit])})
			}
		}
	}
	res.Params = append(res.Params, strSel...)
	for _, o := range e.Obls {
		if o.Class == "post" {
			o.Inputs = append(o.Inputs, strSel...)
		}
		if o.Inputs == nil {
			o.Inputs = res.Params
		}
	}
	return res
}

func resultTerms(rets []Val) []NamedTerm {
	var out []NamedTerm
	for i, r := range rets {
		switch {
		case isInterface(r.Typ):
			out = append(out, NamedTerm{fmt.Sprintf("result%d#tag", i), r.Terms[0]})
		case len(r.Terms) == 1:
			out = append(out, NamedTerm{fmt.Sprintf("result%d", i), r.Terms[0]})
		}
	}
	return out
}

func (e *Engine) execFuncTop(fn *ssa.Function, args, binds []Val, st *State, ct *Contract) ([]Val, *State, *frame) {
	return e.execFunc(fn, args, binds, st, nil, ct)
}

// applyContract is the modular call rule: assert requires, havoc what may be assigned, assume ensures.
func (e *Engine) applyContract(f *frame, st *State, ct *Contract, fn *ssa.Function, sig *types.Signature, args []Val, rt types.Type, pos string, key string) Val {
	pre := st.clone()
	pf := &frame{engine: e, fn: fn, vals: map[ssa.Value]Val{}, params: args, entry: pre, ct: ct, parent: nil}
	var pkg *types.Package
	if fn != nil {
		pf.setSig(fn)
		pkg = typesPkgOf(fn)
		for i, p := range fn.Params {
			if i < len(args) {
				v := args[i]
				v.Typ = p.Type()
				pf.vals[p] = v
				pf.params[i] = v
			}
		}
	} else {
		pf.setIfaceSig(sig)
		pkg = ct.TypesPkg
	}
	ctx := &evalCtx{e: e, f: pf, st: pre, old: pre, bound: map[string]EV{}, pkg: pkg}
	e.bindLets(ctx)
	if fn != nil {
		e.checkDefaultPre(st, fn, ct, args, key, pos)
	} else {
		// interface method: arguments of pointer / interface type must be non-nil unless declared nilable
		for i := 0; i < sig.Params().Len(); i++ {
			pt := sig.Params().At(i)
			if defaultNonNil(pt.Type()) && !ct.Nilable[pt.Name()] {
				a := args[i+1]
				e.oblige(st, "pre", fmt.Sprintf("%s.nonnil.%s@%s", shortKey(key), pt.Name(), callOrd(e, key+"#"+pt.Name())), e.C.Not(e.C.Eq(a.Terms[0], e.C.IntLit(0))), pos,
					"argument "+pt.Name()+" of "+key+" must be non-nil (default precondition)")
			}
		}
	}
	for i, cl := range ct.Requires {
		e.oblige(st, "pre", fmt.Sprintf("%s.%s@%s", shortKey(key), clauseLabel(cl, i), callOrd(e, key)), ctx.boolean(cl.Expr, cl.Text), pos, "precondition of "+key+": "+cl.Text)
	}
	// frame
	if ct.HasAssigns {
		if ct.AssignsAssumed {
			e.note("ASSUMED (not checked against implementations): " + key + " writes only " + assignsText(ct))
		}
		for _, a := range ct.Assigns {
			e.havocTarget(f, st, ctx, a, pos)
		}
		// callee may allocate
		na := e.C.Fresh("alloc", smt.Int)
		e.assume(st, e.C.Op(">=", smt.Bool, na, st.Alloc))
		st.Alloc = na
	} else if fn != nil {
		ms := e.W.modSet(fn)
		e.frameCheckModSet(f, st, ms, key, pos)
		e.havocFamilies(st, ms.list())
	} else {
		ms := e.W.invokeModSetByName(ct.IfaceType, ct.IfaceMethod)
		e.frameCheckModSet(f, st, ms, key, pos)
		e.havocFamilies(st, ms.list())
	}
	var rets []Val
	res := sig.Results()
	if ct.Pure && fn != nil {
		// deterministic, effect-free function: its result is a function of its (scalar) arguments
		var as []*smt.Term
		for _, a := range args {
			as = append(as, a.Terms...)
		}
		for i := 0; i < res.Len(); i++ {
			sorts := e.comps(res.At(i).Type())
			v := Val{Typ: res.At(i).Type()}
			for k, so := range sorts {
				v.Terms = append(v.Terms, e.C.App(fmt.Sprintf("fn.%s.%d.%d", key, i, k), so, as...))
			}
			rets = append(rets, v)
		}
	} else {
		for i := 0; i < res.Len(); i++ {
			rets = append(rets, e.havocResult(st, shortKey(key)+".r", res.At(i).Type()))
		}
	}
	post := &evalCtx{e: e, f: pf, st: st, old: pre, results: rets, bound: ctx.bound, pkg: pkg}
	for _, cl := range ct.Ensures {
		if !e.UseTokens && usesTokens(cl) {
			continue
		}
		if e.UseTokens && byteLevel(cl) {
			continue
		}
		e.assume(st, post.boolean(cl.Expr, cl.Text))
	}
	for _, cl := range ct.Assumes {
		if !e.UseTokens && usesTokens(cl) {
			continue
		}
		e.assume(st, post.boolean(cl.Expr, cl.Text))
		e.note("ASSUMED (not checked against implementations) about " + key + ": " + cl.Text)
	}
	return packResults(rt, rets)
}

func shortKey(k string) string {
	if i := strings.LastIndex(k, "."); i >= 0 {
		return k[i+1:]
	}
	return k
}

func callOrd(e *Engine, key string) string {
	e.classCount["call:"+key]++
	return fmt.Sprintf("%d", e.classCount["call:"+key])
}

type assignTarget struct {
	ref   *smt.Term
	kind  string
	guard *smt.Term // nil: unconditional; chanstate(ch, cond): the channel may change only when cond held on entry
}

// assignTargets lists the (object reference, kind) pairs an assigns target denotes.
func (e *Engine) assignTargets(ctx *evalCtx, a *Clause) []assignTarget {
	if call, ok := a.Expr.(*ECall); ok {
		if id, ok := call.Fn.(*EIdent); ok && (id.Name == "wstream" || id.Name == "rstream") {
			v := ctx.eval(call.Args[0])
			return []assignTarget{{ref: streamKey(v.V), kind: id.Name}}
		}
	}
	if call, ok := a.Expr.(*ECall); ok {
		if id, ok := call.Fn.(*EIdent); ok && (id.Name == "chanstate" || id.Name == "contents") {
			// chanstate(ch): the queue and closed flag of the channel ch denotes (sequential channel model)
			v := ctx.eval(call.Args[0]).V
			switch u := types.Unalias(v.Typ).Underlying().(type) {
			case *types.Slice:
				return []assignTarget{{ref: v.Terms[0], kind: "elem:" + typeStr(u.Elem())}}
			case *types.Map:
				return []assignTarget{{ref: v.Terms[0], kind: "map"}}
			}
			if len(call.Args) == 2 {
				return []assignTarget{{v.Terms[0], "chan", ctx.boolean(call.Args[1], a.Text)}}
			}
			return []assignTarget{{ref: v.Terms[0], kind: "chan"}}
		}
	}
	if un, ok := a.Expr.(*EUn); ok && un.Op == "*" {
		p := ctx.eval(un.X).V
		el := types.Unalias(p.Typ).Underlying().(*types.Pointer).Elem()
		if ae, isArr := arrayElem(el); isArr {
			return []assignTarget{{ref: p.Terms[0], kind: "elem:" + typeStr(ae)}}
		}
		return []assignTarget{{ref: p.Terms[0], kind: "cell:" + typeStr(el)}}
	}
	if sel, ok := a.Expr.(*ESel); ok {
		base := ctx.eval(sel.X).V
		if pt, isPtr := types.Unalias(base.Typ).Underlying().(*types.Pointer); isPtr {
			return []assignTarget{{ref: base.Terms[0], kind: "cell:" + typeStr(pt.Elem())}}
		}
	}
	v := ctx.eval(a.Expr).V
	switch u := types.Unalias(v.Typ).Underlying().(type) {
	case *types.Slice:
		return []assignTarget{{ref: v.Terms[0], kind: "elem:" + typeStr(u.Elem())}}
	case *types.Map:
		return []assignTarget{{ref: v.Terms[0], kind: "map"}}
	case *types.Chan:
		return []assignTarget{{ref: v.Terms[0], kind: "chan"}}
	}
	panic(fmt.Errorf("contract expression: unsupported assigns target %s", a.Text))
}

// appendOnly: count does not shrink and every byte below the old count is unchanged.
func (e *Engine) appendOnly(oldCnt, oldW, newCnt, newW *smt.Term) *smt.Term {
	c := e.C
	i := c.BoundVar("i", smt.BV(64))
	if newW.Op == "ite" || len(newW.Args) > 0 {
		// used as a goal: no instantiation pattern needed (and patterns must not contain ite)
		return c.And(bvle(c, oldCnt, newCnt), c.Forall([]*smt.Term{i}, c.Implies(c.And(bvle(c, c.BVLit64(0, 64), i), c.Op("bvslt", smt.Bool, i, oldCnt)), c.Eq(c.Select(newW, i), c.Select(oldW, i)))))
	}
	keep := c.ForallPat([]*smt.Term{i}, c.Implies(c.And(bvle(c, c.BVLit64(0, 64), i), c.Op("bvslt", smt.Bool, i, oldCnt)), c.Eq(c.Select(newW, i), c.Select(oldW, i))), c.Select(newW, i))
	return c.And(bvle(c, oldCnt, newCnt), keep)
}

// havocTarget forgets the contents of one assigns target (evaluated in the pre-state).
func (e *Engine) havocTarget(f *frame, st *State, ctx *evalCtx, a *Clause, pos string) {
	c := e.C
	// wstream(w) / rstream(r): ghost state of a writer / reader
	if call, ok := a.Expr.(*ECall); ok {
		if id, ok := call.Fn.(*EIdent); ok && (id.Name == "wstream" || id.Name == "rstream") {
			v := ctx.eval(call.Args[0])
			key := streamKey(v.V)
			e.frameCheckRef(f, st, key, id.Name, pos)
			if id.Name == "wstream" {
				// writers are append-only: the bytes written before the call are still there afterwards
				oldCnt := e.ghostGet(st, gCount, key)
				oldW := e.ghostGet(st, gWData, key)
				newCnt := c.Fresh("havoc.count", smt.BV(64))
				chunk := c.Fresh("havoc.chunk", bytesInner)
				// new contents = old contents with an unknown chunk appended at the old end (reads below the old
				// count resolve through the splice axiom)
				newW := c.App("arr.splice."+sortTag(smt.BV(8)), bytesInner, oldW, oldCnt, chunk, c.BVLit64(0, 64), bvsub(c, newCnt, oldCnt))
				e.ghostSet(st, gCount, key, newCnt)
				e.ghostSet(st, gWData, key, newW)
				e.assume(st, bvle(c, oldCnt, newCnt))
			} else {
				// a *bytes.Buffer is read back: what it delivers is what has been written to it (synchronised here, at
				// the read, and only for statically known buffers - doing it at every write of every io.Writer makes
				// all stream obligations markedly harder for the solvers)
				if e.isKnownBuffer(v.V) {
					e.syncBuffer(st, key, nil)
					e.note("known *bytes.Buffer read through a contract: its readable bytes are what was written")
				}
				e.ghostSet(st, gPos, key, c.Fresh("havoc.pos", smt.BV(64)))
			}
			return
		}
	}
	var p Val
	if call, ok := a.Expr.(*ECall); ok {
		if id, ok := call.Fn.(*EIdent); ok && (id.Name == "chanstate" || id.Name == "contents") {
			var guard Expr
			if len(call.Args) == 2 {
				guard = call.Args[1]
			}
			a = &Clause{Label: a.Label, Text: a.Text, Line: a.Line, Expr: call.Args[0], chanState: true, chanGuard: guard}
		}
	}
	if un, ok := a.Expr.(*EUn); ok && un.Op == "*" {
		p = ctx.eval(un.X).V
	} else if sel, ok := a.Expr.(*ESel); ok && !a.chanState {
		// p.f : field of the struct p points to
		base := ctx.eval(sel.X).V
		pt, isPtr := types.Unalias(base.Typ).Underlying().(*types.Pointer)
		if !isPtr {
			panic(fmt.Errorf("contract expression: assigns %s: base is not a pointer", a.Text))
		}
		stt := types.Unalias(pt.Elem()).Underlying().(*types.Struct)
		idx := fieldIndex(stt, sel.Field)
		off, n := e.fieldRange(pt.Elem(), idx)
		if base.Ptr == nil {
			e.wrapPtr(&base)
		}
		np := *base.Ptr
		np.Off += off
		np.N = n
		p = Val{Typ: types.NewPointer(stt.Field(idx).Type()), Terms: base.Terms, Ptr: &np}
	} else {
		v := ctx.eval(a.Expr).V
		switch u := types.Unalias(v.Typ).Underlying().(type) {
		case *types.Slice:
			e.frameCheckRef(f, st, v.Terms[0], "elem:"+typeStr(u.Elem()), pos)
			for k, so := range e.comps(u.Elem()) {
				name := elemName(u.Elem(), k)
				as := smt.Array(smt.BV(64), so)
				arr := e.heapArr(st, name, smt.Array(smt.Int, as))
				st.Heap[name] = c.Store(arr, v.Terms[0], c.Fresh("havoc.elems", as))
			}
			return
		case *types.Map:
			e.frameCheckRef(f, st, v.Terms[0], "map", pos)
			mn := e.mapInfo(v.Typ)
			has := e.heapArr(st, mn.has, smt.Array(smt.Int, smt.Array(mn.ks, smt.Bool)))
			st.Heap[mn.has] = c.Store(has, v.Terms[0], c.Fresh("havoc.has", smt.Array(mn.ks, smt.Bool)))
			ln := e.heapArr(st, mn.ln, smt.Array(smt.Int, smt.BV(64)))
			st.Heap[mn.ln] = c.Store(ln, v.Terms[0], c.Fresh("havoc.len", smt.BV(64)))
			for k, so := range mn.vs {
				arr := e.heapArr(st, mn.vals[k], smt.Array(smt.Int, smt.Array(mn.ks, so)))
				st.Heap[mn.vals[k]] = c.Store(arr, v.Terms[0], c.Fresh("havoc.mv", smt.Array(mn.ks, so)))
			}
			return
		case *types.Chan:
			// a modelled channel: its queue (multiset, length) and closed flag may change, its capacity does not
			ci, ok := e.chanInfoOf(v.Typ)
			if !ok {
				panic(fmt.Errorf("contract expression: assigns %s: not a modelled channel type", a.Text))
			}
			g := c.True()
			if a.chanGuard != nil {
				g = ctx.boolean(a.chanGuard, a.Text)
			}
			saved := st.Reach
			st.Reach = c.And(st.Reach, g)
			e.frameCheckRef(f, st, v.Terms[0], "chan", pos)
			st.Reach = saved
			cnt, ln, cp, cls := e.chanArrs(st, ci)
			nl := c.Fresh("havoc.chanlen", smt.BV(64))
			e.assume(st, c.And(bvle(c, c.BVLit64(0, 64), nl), bvle(c, nl, c.Select(cp, v.Terms[0]))))
			st.Heap[ci.cnt] = c.Store(cnt, v.Terms[0], c.Ite(g, c.Fresh("havoc.chancnt", smt.Array(ci.es, smt.BV(64))), c.Select(cnt, v.Terms[0])))
			st.Heap[ci.ln] = c.Store(ln, v.Terms[0], c.Ite(g, nl, c.Select(ln, v.Terms[0])))
			st.Heap[ci.cls] = c.Store(cls, v.Terms[0], c.Ite(g, c.Fresh("havoc.chanclosed", smt.Bool), c.Select(cls, v.Terms[0])))
			return
		}
		panic(fmt.Errorf("contract expression: unsupported assigns target %s", a.Text))
	}
	if p.Ptr == nil {
		e.wrapPtr(&p)
	}
	e.frameCheck(f, st, p, pos)
	el := types.Unalias(p.Typ).Underlying().(*types.Pointer).Elem()
	nv := e.fresh("havoc", el)
	e.assume(st, e.validVal(st, nv))
	e.store(st, p, nv)
}

// frameCheckModSet: inside a function with an assigns clause, a callee without one may only have an empty mod-set.
func (e *Engine) frameCheckModSet(f *frame, st *State, ms *modSet, key, pos string) {
	top := f
	for top.parent != nil {
		top = top.parent
	}
	if top.frameRule == nil {
		return
	}
	bad := ms.all
	for fam := range ms.fams {
		if !strings.HasPrefix(fam, "G<") {
			bad = true
		}
	}
	if bad {
		e.oblige(st, "frame", "", e.C.False(), pos, "callee "+key+" has no assigns clause but may write "+strings.Join(ms.list(), ","))
	}
}

// defaultNonNil: pointer, interface, function and channel parameters are non-nil by default (both assumed in the
// callee and checked at every non-inlined call site); a contract can opt out with "nilable p".
func defaultNonNil(t types.Type) bool {
	switch types.Unalias(t).Underlying().(type) {
	case *types.Pointer, *types.Interface, *types.Signature, *types.Chan:
		return true
	}
	return false
}

// invsFor returns the type invariants applying to fn's receiver.
func (w *World) invsFor(fn *ssa.Function) []*Clause {
	if fn.Signature.Recv() == nil || len(fn.Params) == 0 {
		return nil
	}
	k := FuncKey(fn)
	if i := strings.LastIndex(k, ")."); i >= 0 {
		return w.TypeInvs[k[:i+1]]
	}
	return nil
}

// checkDefaultPre emits the call-site half of the default non-nil precondition.
func (e *Engine) checkDefaultPre(st *State, fn *ssa.Function, ct *Contract, args []Val, key, pos string) {
	for i, p := range fn.Params {
		if i >= len(args) || !defaultNonNil(p.Type()) || (ct != nil && ct.Nilable[p.Name()]) {
			continue
		}
		cond := e.C.Not(e.C.Eq(args[i].Terms[0], e.C.IntLit(0)))
		if isInterface(p.Type()) {
			cond = e.C.And(cond, e.C.Not(e.C.Eq(args[i].Terms[1], e.C.IntLit(0))))
		}
		e.oblige(st, "pre", fmt.Sprintf("%s.nonnil.%s@%s", shortKey(key), p.Name(), callOrd(e, key+"#"+p.Name())), cond, pos,
			"argument "+p.Name()+" of "+key+" must be non-nil (default precondition)")
	}
	for i, cl := range e.W.invsFor(fn) {
		pf := &frame{engine: e, fn: fn, vals: map[ssa.Value]Val{}, params: args, entry: st}
		pf.setSig(fn)
		ctx := &evalCtx{e: e, f: pf, st: st, old: st, bound: map[string]EV{"self": {V: args[0]}}, pkg: typesPkgOf(fn)}
		e.oblige(st, "pre", fmt.Sprintf("%s.inv.%s@%s", shortKey(key), clauseLabel(cl, i), callOrd(e, key+"#inv")), ctx.boolean(cl.Expr, cl.Text), pos,
			"type invariant of the receiver of "+key+": "+cl.Text)
	}
}

// ListFuncs returns the keys of repository functions (deterministic order).
func (w *World) ListFuncs() []string {
	var out []string
	for k := range w.Funcs {
		out = append(out, k)
	}
	sort.Strings(out)
	return out
}

// ifaceContractsFor lists the interface-level contracts that method fn must refine.
func (w *World) ifaceContractsFor(fn *ssa.Function) []*Contract {
	recv := fn.Signature.Recv()
	if recv == nil {
		return nil
	}
	var out []*Contract
	for _, ic := range w.Contracts {
		if ic.IfaceType == nil || ic.IfaceMethod != fn.Name() {
			continue
		}
		it := types.Unalias(ic.IfaceType).Underlying().(*types.Interface)
		if types.Implements(recv.Type(), it) {
			out = append(out, ic)
		}
	}
	sort.Slice(out, func(i, j int) bool { return out[i].Key < out[j].Key })
	return out
}

// splitConj splits (and a b ..) and (=> p (and a b ..)) into their conjuncts.
func splitConj(c *smt.Ctx, t *smt.Term) []*smt.Term {
	if t.Op == "and" {
		var out []*smt.Term
		for _, a := range t.Args {
			out = append(out, splitConj(c, a)...)
		}
		return out
	}
	if t.Op == "=>" && len(t.Args) == 2 {
		inner := splitConj(c, t.Args[1])
		if len(inner) > 1 {
			var out []*smt.Term
			for _, a := range inner {
				out = append(out, c.Implies(t.Args[0], a))
			}
			return out
		}
	}
	return []*smt.Term{t}
}

func assignsText(ct *Contract) string {
	var parts []string
	for _, a := range ct.Assigns {
		parts = append(parts, strings.TrimSpace(a.Text))
	}
	if len(parts) == 0 {
		return "nothing"
	}
	return strings.Join(parts, ", ")
}

// isKnownBuffer: v is statically a *bytes.Buffer (directly, or an interface value made from one).
func (e *Engine) isKnownBuffer(v Val) bool {
	if !isInterface(v.Typ) {
		return typeStr(v.Typ) == "*bytes.Buffer"
	}
	if v.Known != nil && typeStr(v.Known.Typ) == "*bytes.Buffer" {
		return true
	}
	if len(v.Terms) > 0 {
		if v.Terms[0] == e.C.IntLit(int64(e.typeTag(bufferPtrType(e)))) {
			return true
		}
	}
	return false
}

// checkFmtSelfRecursion: inside T's String() or Error() method, handing a value of type T (or *T) itself to a fmt
// formatting function makes fmt call that very method again - unbounded recursion, which ends in a stack overflow
// that no recover() catches. The model of fmt is pure (results unconstrained), so this is stated as an obligation
// of its own: every such argument must have been converted to a type without the method.
func (e *Engine) checkFmtSelfRecursion(fn *ssa.Function, st *State) {
	if fn.Signature.Recv() == nil || (fn.Name() != "String" && fn.Name() != "Error") || fn.Signature.Params().Len() != 0 {
		return
	}
	recvT := fn.Signature.Recv().Type()
	base := recvT
	if p, ok := types.Unalias(recvT).Underlying().(*types.Pointer); ok {
		base = p.Elem()
	}
	selfLike := func(t types.Type) bool {
		if p, ok := types.Unalias(t).(*types.Pointer); ok {
			t = p.Elem()
		}
		return types.Identical(t, base)
	}
	for _, b := range fn.Blocks {
		for _, in := range b.Instrs {
			call, ok := in.(*ssa.Call)
			if !ok {
				continue
			}
			callee := call.Call.StaticCallee()
			if callee == nil || pkgPathOf(callee) != "fmt" || len(call.Call.Args) == 0 {
				continue
			}
			// the variadic argument: a slice of a local [n]interface{} array
			sl, ok := call.Call.Args[len(call.Call.Args)-1].(*ssa.Slice)
			if !ok {
				continue
			}
			al, ok := sl.X.(*ssa.Alloc)
			if !ok || al.Referrers() == nil {
				continue
			}
			// which argument positions are formatted with a verb that consults String()/Error() (%v %s %x %X %q)
			stringVerbAt := func(int) bool { return true }
			if strings.HasSuffix(callee.Name(), "f") {
				fmtArg := len(call.Call.Args) - 2
				if fmtArg < 0 {
					continue
				}
				k, ok := call.Call.Args[fmtArg].(*ssa.Const)
				if !ok || k.Value == nil || k.Value.Kind() != constant.String {
					continue
				}
				verbs := printfVerbs(constant.StringVal(k.Value))
				stringVerbAt = func(i int) bool {
					return i < len(verbs) && strings.ContainsRune("vsxXq", verbs[i])
				}
			}
			for _, u := range *al.Referrers() {
				ia, ok := u.(*ssa.IndexAddr)
				if !ok || ia.Referrers() == nil {
					continue
				}
				idx, isConst := ia.Index.(*ssa.Const)
				if !isConst || !stringVerbAt(int(idx.Int64())) {
					continue
				}
				for _, uu := range *ia.Referrers() {
					stv, ok := uu.(*ssa.Store)
					if !ok {
						continue
					}
					if mi, ok := stv.Val.(*ssa.MakeInterface); ok && selfLike(mi.X.Type()) {
						e.oblige(st, "panic", "fmt-self", e.C.False(), posOf(e.W.Prog, call),
							"the receiver itself is passed to "+callee.Name()+" inside its own "+fn.Name()+"() method: fmt calls "+fn.Name()+"() again without bound (stack overflow)")
					}
				}
			}
		}
	}
}

// printfVerbs lists, per operand, the verb that formats it ('*' width/precision operands are listed as '*').
func printfVerbs(f string) []rune {
	var out []rune
	rs := []rune(f)
	for i := 0; i < len(rs); i++ {
		if rs[i] != '%' {
			continue
		}
		i++
		for i < len(rs) && strings.ContainsRune("+-# 0123456789.[]*", rs[i]) {
			if rs[i] == '*' {
				out = append(out, '*')
			}
			i++
		}
		if i < len(rs) && rs[i] != '%' {
			out = append(out, rs[i])
		}
	}
	return out
}


func hasCall(b *ssa.BasicBlock) bool {
	for _, in := range b.Instrs {
		if _, ok := in.(*ssa.Call); ok {
			return true
		}
	}
	return false
}
