package vc

import (
	"fmt"
	"go/types"
	"runtime/debug"
	"sort"
	"strings"

	"golang.org/x/tools/go/ssa"

	"verif/internal/smt"
)

// FuncVC is the result of generating verification conditions for one function.
type FuncVC struct {
	Key      string
	Fn       *ssa.Function
	Engine   *Engine
	Rejected string // non-empty: function is outside the subset
	Params   []NamedTerm
}

// Mode selects which obligation classes are generated.
type Mode struct {
	Contract bool // use the function's contract (requires / ensures / invariants)
	Safety   bool // keep safety obligations (always generated; dropped when false)
}

func (w *World) initState(e *Engine) *State {
	st := &State{Reach: e.C.True(), Heap: map[string]*smt.Term{}, Ver: map[string]int{}}
	st.Alloc = e.C.Const("alloc@0", smt.Int)
	e.assumeGlobal(e.C.Op(">=", smt.Bool, st.Alloc, e.C.IntLit(1)))
	return st
}

// GenVC symbolically executes fn under its contract ct (may be nil) and returns the engine holding obligations.
func (w *World) GenVC(fn *ssa.Function, ct *Contract, opts ...func(*Engine)) (res *FuncVC) {
	key := FuncKey(fn)
	e := NewEngine(w)
	for _, o := range opts {
		o(e)
	}
	e.namePrefix = key
	e.top = fn
	res = &FuncVC{Key: key, Fn: fn, Engine: e}
	defer func() {
		if r := recover(); r != nil {
			switch x := r.(type) {
			case rejectErr:
				res.Rejected = x.msg
			case error:
				res.Rejected = "error: " + x.Error()
				if !strings.HasPrefix(x.Error(), "contract expression") {
					res.Rejected += "\n" + string(debug.Stack())
				}
			default:
				res.Rejected = fmt.Sprintf("internal: %v\n%s", r, debug.Stack())
			}
		}
	}()
	st := w.initState(e)
	e.Init = st.clone()
	var args []Val
	for _, p := range fn.Params {
		v := e.fresh("in."+p.Name(), p.Type())
		e.assumeGlobal(e.validVal(st, v))
		args = append(args, v)
		if defaultNonNil(p.Type()) && !(ct != nil && ct.Nilable[p.Name()]) {
			e.assumeGlobal(e.C.Not(e.C.Eq(v.Terms[0], e.C.IntLit(0))))
			if isInterface(p.Type()) {
				// and interface parameters do not hold typed nil pointers
				e.assumeGlobal(e.C.Not(e.C.Eq(v.Terms[1], e.C.IntLit(0))))
			}
			e.note("default precondition: pointer, interface and function parameters are non-nil (interfaces do not hold typed nil pointers) unless declared nilable")
		}
	}
	res.Params = e.inputTerms(st.clone(), fn, args)
	var binds []Val
	for _, fv := range fn.FreeVars {
		v := e.fresh("free."+fv.Name(), fv.Type())
		e.assumeGlobal(e.validVal(st, v))
		if isPointer(fv.Type()) {
			e.assumeGlobal(e.C.Not(e.C.Eq(v.Terms[0], e.C.IntLit(0))))
		}
		binds = append(binds, v)
	}
	// requires
	pre := &frame{engine: e, fn: fn, vals: map[ssa.Value]Val{}, params: args, entry: st, ct: ct}
	for i, p := range fn.Params {
		pre.vals[p] = args[i]
	}
	for _, cl := range w.invsFor(fn) {
		ctx := &evalCtx{e: e, f: pre, st: st, old: st, bound: map[string]EV{"self": {V: args[0]}}, pkg: typesPkgOf(fn)}
		e.assume(st, ctx.boolean(cl.Expr, cl.Text))
		e.note("type invariant assumed on the receiver: " + cl.Text)
	}
	if ct != nil {
		ctx := &evalCtx{e: e, f: pre, st: st, old: st, bound: map[string]EV{}, pkg: typesPkgOf(fn)}
		e.bindLets(ctx)
		for _, cl := range ct.Requires {
			e.assume(st, ctx.boolean(cl.Expr, cl.Text))
		}
	}
	entryAssumes := len(e.Assumes)
	rets, exit, fr := e.execFuncTop(fn, args, binds, st, ct)
	// cover: the precondition (and every assumption made along the way) is satisfiable
	e.Obls = append(e.Obls, &Obligation{Name: key + ":cover:requires", Class: "cover", Cond: e.C.False(), NAssume: entryAssumes, ExpectSat: true,
		Detail: "precondition is satisfiable"})
	if ct != nil {
		ctx := &evalCtx{e: e, f: fr, st: exit, old: fr.entry, results: rets, bound: map[string]EV{}, pkg: typesPkgOf(fn)}
		e.bindLets(ctx)
		for i, cl := range ct.Ensures {
			t := ctx.boolean(cl.Expr, cl.Text)
			o := e.oblige(exit, "post", clauseLabel(cl, i), t, fmt.Sprintf("%s:%d", strings.TrimPrefix(ct.File, "/repo/"), cl.Line), "ensures "+cl.Text)
			o.Inputs = append(append([]NamedTerm{}, res.Params...), resultTerms(rets)...)
		}
		for i, cl := range ct.Cases {
			t := ctx.boolean(cl.Expr, cl.Text)
			e.Obls = append(e.Obls, &Obligation{Name: key + ":cover:" + clauseLabel(cl, i), Class: "cover", Cond: e.C.Not(e.C.And(exit.Reach, t)), NAssume: len(e.Assumes), ExpectSat: true,
				Detail: "case is reachable: " + cl.Text})
		}
	}
	// string parameters: which literal (if any) the model picks
	var strSel []NamedTerm
	for i, p := range fn.Params {
		if isString(p.Type()) {
			for _, lit := range e.strLitOrder {
				strSel = append(strSel, NamedTerm{Name: p.Name() + "==" + lit, T: e.C.Eq(args[i].Terms[0], e.strLits[lit])})
			}
		}
	}
	res.Params = append(res.Params, strSel...)
	for _, o := range e.Obls {
		if o.Class == "post" {
			o.Inputs = append(o.Inputs, strSel...)
		}
		if o.Inputs == nil {
			o.Inputs = res.Params
		}
	}
	return res
}

func resultTerms(rets []Val) []NamedTerm {
	var out []NamedTerm
	for i, r := range rets {
		switch {
		case isInterface(r.Typ):
			out = append(out, NamedTerm{fmt.Sprintf("result%d#tag", i), r.Terms[0]})
		case len(r.Terms) == 1:
			out = append(out, NamedTerm{fmt.Sprintf("result%d", i), r.Terms[0]})
		}
	}
	return out
}

func (e *Engine) execFuncTop(fn *ssa.Function, args, binds []Val, st *State, ct *Contract) ([]Val, *State, *frame) {
	return e.execFunc(fn, args, binds, st, nil, ct)
}

// applyContract is the modular call rule: assert requires, havoc what may be assigned, assume ensures.
func (e *Engine) applyContract(f *frame, st *State, ct *Contract, fn *ssa.Function, sig *types.Signature, args []Val, rt types.Type, pos string, key string) Val {
	if fn == nil {
		panic(reject("interface-level contracts need a representative function: " + key))
	}
	pre := st.clone()
	pf := &frame{engine: e, fn: fn, vals: map[ssa.Value]Val{}, params: args, entry: pre, ct: ct, parent: nil}
	for i, p := range fn.Params {
		if i < len(args) {
			v := args[i]
			v.Typ = p.Type()
			pf.vals[p] = v
			pf.params[i] = v
		}
	}
	ctx := &evalCtx{e: e, f: pf, st: pre, old: pre, bound: map[string]EV{}, pkg: typesPkgOf(fn)}
	e.bindLets(ctx)
	e.checkDefaultPre(st, fn, ct, args, key, pos)
	for i, cl := range ct.Requires {
		e.oblige(st, "pre", fmt.Sprintf("%s.%s@%s", shortKey(key), clauseLabel(cl, i), callOrd(e, key)), ctx.boolean(cl.Expr, cl.Text), pos, "precondition of "+key+": "+cl.Text)
	}
	// frame
	if ct.HasAssigns {
		for _, a := range ct.Assigns {
			e.havocTarget(f, st, ctx, a, pos)
		}
		// callee may allocate
		na := e.C.Fresh("alloc", smt.Int)
		e.assume(st, e.C.Op(">=", smt.Bool, na, st.Alloc))
		st.Alloc = na
	} else {
		ms := e.W.modSet(fn)
		e.frameCheckModSet(f, st, ms, key, pos)
		e.havocFamilies(st, ms.list())
	}
	var rets []Val
	res := sig.Results()
	for i := 0; i < res.Len(); i++ {
		rets = append(rets, e.havocResult(st, fn.Name()+".r", res.At(i).Type()))
	}
	post := &evalCtx{e: e, f: pf, st: st, old: pre, results: rets, bound: ctx.bound, pkg: typesPkgOf(fn)}
	for _, cl := range ct.Ensures {
		e.assume(st, post.boolean(cl.Expr, cl.Text))
	}
	return packResults(rt, rets)
}

func shortKey(k string) string {
	if i := strings.LastIndex(k, "."); i >= 0 {
		return k[i+1:]
	}
	return k
}

func callOrd(e *Engine, key string) string {
	e.classCount["call:"+key]++
	return fmt.Sprintf("%d", e.classCount["call:"+key])
}

// havocTarget forgets the contents of one assigns target (evaluated in the pre-state).
func (e *Engine) havocTarget(f *frame, st *State, ctx *evalCtx, a *Clause, pos string) {
	c := e.C
	// stream(x): ghost state of a reader / writer
	if call, ok := a.Expr.(*ECall); ok {
		if id, ok := call.Fn.(*EIdent); ok && id.Name == "stream" {
			v := ctx.eval(call.Args[0])
			key := streamKey(v.V)
			for _, g := range []string{gCount, gPos} {
				e.ghostSet(st, g, key, c.Fresh("havoc."+g, smt.BV(64)))
			}
			e.ghostSet(st, gWData, key, c.Fresh("havoc.wdata", bytesInner))
			return
		}
	}
	var p Val
	if un, ok := a.Expr.(*EUn); ok && un.Op == "*" {
		p = ctx.eval(un.X).V
	} else if sel, ok := a.Expr.(*ESel); ok {
		// p.f : field of the struct p points to
		base := ctx.eval(sel.X).V
		pt, isPtr := types.Unalias(base.Typ).Underlying().(*types.Pointer)
		if !isPtr {
			panic(fmt.Errorf("contract expression: assigns %s: base is not a pointer", a.Text))
		}
		stt := types.Unalias(pt.Elem()).Underlying().(*types.Struct)
		idx := fieldIndex(stt, sel.Field)
		off, n := e.fieldRange(pt.Elem(), idx)
		if base.Ptr == nil {
			e.wrapPtr(&base)
		}
		np := *base.Ptr
		np.Off += off
		np.N = n
		p = Val{Typ: types.NewPointer(stt.Field(idx).Type()), Terms: base.Terms, Ptr: &np}
	} else {
		v := ctx.eval(a.Expr).V
		switch u := types.Unalias(v.Typ).Underlying().(type) {
		case *types.Slice:
			e.frameCheckRef(f, st, v.Terms[0], "elem:"+typeStr(u.Elem()), pos)
			for k, so := range e.comps(u.Elem()) {
				name := elemName(u.Elem(), k)
				as := smt.Array(smt.BV(64), so)
				arr := e.heapArr(st, name, smt.Array(smt.Int, as))
				st.Heap[name] = c.Store(arr, v.Terms[0], c.Fresh("havoc.elems", as))
			}
			return
		case *types.Map:
			e.frameCheckRef(f, st, v.Terms[0], "map", pos)
			mn := e.mapInfo(v.Typ)
			has := e.heapArr(st, mn.has, smt.Array(smt.Int, smt.Array(mn.ks, smt.Bool)))
			st.Heap[mn.has] = c.Store(has, v.Terms[0], c.Fresh("havoc.has", smt.Array(mn.ks, smt.Bool)))
			ln := e.heapArr(st, mn.ln, smt.Array(smt.Int, smt.BV(64)))
			st.Heap[mn.ln] = c.Store(ln, v.Terms[0], c.Fresh("havoc.len", smt.BV(64)))
			for k, so := range mn.vs {
				arr := e.heapArr(st, mn.vals[k], smt.Array(smt.Int, smt.Array(mn.ks, so)))
				st.Heap[mn.vals[k]] = c.Store(arr, v.Terms[0], c.Fresh("havoc.mv", smt.Array(mn.ks, so)))
			}
			return
		}
		panic(fmt.Errorf("contract expression: unsupported assigns target %s", a.Text))
	}
	if p.Ptr == nil {
		e.wrapPtr(&p)
	}
	e.frameCheck(f, st, p, pos)
	el := types.Unalias(p.Typ).Underlying().(*types.Pointer).Elem()
	nv := e.fresh("havoc", el)
	e.assume(st, e.validVal(st, nv))
	e.store(st, p, nv)
}

// frameCheckModSet: inside a function with an assigns clause, a callee without one may only have an empty mod-set.
func (e *Engine) frameCheckModSet(f *frame, st *State, ms *modSet, key, pos string) {
	top := f
	for top.parent != nil {
		top = top.parent
	}
	if top.frameRule == nil {
		return
	}
	bad := ms.all
	for fam := range ms.fams {
		if !strings.HasPrefix(fam, "G<") {
			bad = true
		}
	}
	if bad {
		e.oblige(st, "frame", "", e.C.False(), pos, "callee "+key+" has no assigns clause but may write "+strings.Join(ms.list(), ","))
	}
}

// defaultNonNil: pointer, interface, function and channel parameters are non-nil by default (both assumed in the
// callee and checked at every non-inlined call site); a contract can opt out with "nilable p".
func defaultNonNil(t types.Type) bool {
	switch types.Unalias(t).Underlying().(type) {
	case *types.Pointer, *types.Interface, *types.Signature, *types.Chan:
		return true
	}
	return false
}

// invsFor returns the type invariants applying to fn's receiver.
func (w *World) invsFor(fn *ssa.Function) []*Clause {
	if fn.Signature.Recv() == nil || len(fn.Params) == 0 {
		return nil
	}
	k := FuncKey(fn)
	if i := strings.LastIndex(k, ")."); i >= 0 {
		return w.TypeInvs[k[:i+1]]
	}
	return nil
}

// checkDefaultPre emits the call-site half of the default non-nil precondition.
func (e *Engine) checkDefaultPre(st *State, fn *ssa.Function, ct *Contract, args []Val, key, pos string) {
	for i, p := range fn.Params {
		if i >= len(args) || !defaultNonNil(p.Type()) || (ct != nil && ct.Nilable[p.Name()]) {
			continue
		}
		cond := e.C.Not(e.C.Eq(args[i].Terms[0], e.C.IntLit(0)))
		if isInterface(p.Type()) {
			cond = e.C.And(cond, e.C.Not(e.C.Eq(args[i].Terms[1], e.C.IntLit(0))))
		}
		e.oblige(st, "pre", fmt.Sprintf("%s.nonnil.%s@%s", shortKey(key), p.Name(), callOrd(e, key+"#"+p.Name())), cond, pos,
			"argument "+p.Name()+" of "+key+" must be non-nil (default precondition)")
	}
	for i, cl := range e.W.invsFor(fn) {
		pf := &frame{engine: e, fn: fn, vals: map[ssa.Value]Val{}, params: args, entry: st}
		ctx := &evalCtx{e: e, f: pf, st: st, old: st, bound: map[string]EV{"self": {V: args[0]}}, pkg: typesPkgOf(fn)}
		e.oblige(st, "pre", fmt.Sprintf("%s.inv.%s@%s", shortKey(key), clauseLabel(cl, i), callOrd(e, key+"#inv")), ctx.boolean(cl.Expr, cl.Text), pos,
			"type invariant of the receiver of "+key+": "+cl.Text)
	}
}

// ListFuncs returns the keys of repository functions (deterministic order).
func (w *World) ListFuncs() []string {
	var out []string
	for k := range w.Funcs {
		out = append(out, k)
	}
	sort.Strings(out)
	return out
}
