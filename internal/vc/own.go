package vc

import (
	"fmt"
	"go/types"
	"strings"

	"golang.org/x/tools/go/ssa"

	"verif/internal/smt"
)

// Ownership discipline for deep copies (C17). The contract is generated from the types, not written by hand:
//
//	store rule : every reference (pointer, slice backing array, map, interface payload) written into memory that was
//	             allocated during the copy is nil or itself allocated during the copy;
//	exit rule  : on return from (in *T).DeepCopyInto(out), every reference component of *out (of the current
//	             definition of T, any depth of embedded struct values) is nil or fresh, nil exactly when the
//	             corresponding component of *in is nil, slice lengths agree, and every scalar component equals *in's;
//	results    : DeepCopy / DeepCopyMessage / DeepCopyDataType return nil for a nil receiver and otherwise a fresh object.
//
// Fresh memory starts zeroed, so by induction over the stores nothing reachable from the copy through fresh memory
// is shared with the original. Callees of the family are used through the same summary (assume/guarantee).

type refComp struct {
	idx    int
	kind   string // ptr | slice | map | iface
	path   string
	lenIdx int // for slices: component index of the length
	nilIdx int // component whose zero-ness decides nil (interfaces: the tag)
}

// refComps lists the reference components of the flattened components of t, and the scalar ones.
func (e *Engine) refComps(t types.Type, base int, path string) (refs []refComp, scalars []int) {
	switch u := types.Unalias(t).Underlying().(type) {
	case *types.Pointer:
		return []refComp{{idx: base, kind: "ptr", path: path}}, nil
	case *types.Map:
		return []refComp{{idx: base, kind: "map", path: path}}, nil
	case *types.Slice:
		return []refComp{{idx: base, kind: "slice", path: path, lenIdx: base + 2}}, nil
	case *types.Interface:
		// freshness is about the payload, nil-ness about the dynamic type tag (which must also be preserved)
		return []refComp{{idx: base + 1, kind: "iface", path: path, nilIdx: base}}, []int{base}
	case *types.Signature, *types.Chan:
		return nil, []int{base}
	case *types.Struct:
		off := base
		for i := 0; i < u.NumFields(); i++ {
			r, s := e.refComps(u.Field(i).Type(), off, path+"."+u.Field(i).Name())
			refs = append(refs, r...)
			scalars = append(scalars, s...)
			off += len(e.comps(u.Field(i).Type()))
		}
		return refs, scalars
	default:
		n := len(e.comps(t))
		for k := 0; k < n; k++ {
			scalars = append(scalars, base+k)
		}
		return nil, scalars
	}
}

func deepCopyKind(fn *ssa.Function) string {
	switch fn.Name() {
	case "DeepCopyInto", "DeepCopy", "DeepCopyMessage", "DeepCopyDataType":
		if fn.Signature.Recv() != nil {
			return fn.Name()
		}
	}
	return ""
}

func (e *Engine) isFresh(ref *smt.Term) *smt.Term {
	return e.C.Op(">=", smt.Bool, ref, e.ownAlloc0)
}

// ownStore is the store rule; target is the reference of the object written to.
func (e *Engine) ownStore(st *State, target *smt.Term, v Val, pos, what string) {
	if !e.OwnCheck || e.quiet > 0 || len(v.Terms) == 0 {
		return
	}
	refs, _ := e.refComps(v.Typ, 0, "")
	c := e.C
	for _, r := range refs {
		if r.idx >= len(v.Terms) {
			continue
		}
		val := v.Terms[r.idx]
		cond := c.Implies(e.isFresh(target), c.Or(c.Eq(val, c.IntLit(0)), e.isFresh(val)))
		e.oblige(st, "own", "", cond, pos, "reference stored into the copy ("+what+r.path+") is nil or freshly allocated")
	}
}

// ownPost emits the exit rule for a function of the DeepCopy family.
func (e *Engine) ownPost(fn *ssa.Function, args []Val, rets []Val, entry, exit *State) {
	c := e.C
	switch deepCopyKind(fn) {
	case "DeepCopyInto":
		in, out := args[0], args[1]
		el := types.Unalias(in.Typ).Underlying().(*types.Pointer).Elem()
		e.quiet++
		inV := e.load(entry.clone(), in, el)
		outV := e.load(exit.clone(), out, el)
		e.quiet--
		refs, scalars := e.refComps(el, 0, "")
		for _, r := range refs {
			iv, ov := inV.Terms[r.idx], outV.Terms[r.idx]
			e.oblige(exit, "post", "own"+r.path, c.Or(c.Eq(ov, c.IntLit(0)), e.isFresh(ov)), "", "out"+r.path+" is nil or freshly allocated (not shared with the original)")
			on, in2 := ov, iv
			if r.kind == "iface" {
				on, in2 = outV.Terms[r.nilIdx], inV.Terms[r.nilIdx]
			}
			e.oblige(exit, "post", "nil"+r.path, c.Eq(c.Eq(on, c.IntLit(0)), c.Eq(in2, c.IntLit(0))), "", "out"+r.path+" is nil exactly when in"+r.path+" is")
			if r.kind == "slice" {
				e.oblige(exit, "post", "len"+r.path, c.Eq(outV.Terms[r.lenIdx], inV.Terms[r.lenIdx]), "", "len(out"+r.path+") == len(in"+r.path+")")
			}
		}
		var eqs []*smt.Term
		for _, k := range scalars {
			eqs = append(eqs, c.Eq(outV.Terms[k], inV.Terms[k]))
		}
		e.oblige(exit, "post", "scalars", c.And(eqs...), "", "every scalar component of *out equals that of *in")
	case "DeepCopy", "DeepCopyMessage", "DeepCopyDataType":
		in := args[0]
		res := rets[0]
		var ref *smt.Term
		if isInterface(res.Typ) {
			ref = res.Terms[1]
		} else {
			ref = res.Terms[0]
		}
		inNil := c.Eq(in.Terms[0], c.IntLit(0))
		e.oblige(exit, "post", "fresh", c.Implies(c.Not(inNil), c.And(c.Not(c.Eq(ref, c.IntLit(0))), e.isFresh(ref))), "", "the copy is a freshly allocated object")
		e.oblige(exit, "post", "nilcopy", c.Implies(inNil, c.Eq(res.Terms[0], c.IntLit(0))), "", "copying nil gives nil")
		if isInterface(res.Typ) {
			e.oblige(exit, "post", "dyntype", c.Implies(c.Not(inNil), c.Eq(res.Terms[0], c.IntLit(int64(e.typeTag(in.Typ))))), "", "the copy has the receiver's dynamic type")
		}
	}
}

// ownSummary is the assumed effect of calling a member of the DeepCopy family (each member is itself checked
// against it). ok=false when fn is not of the family.
func (e *Engine) ownSummary(f *frame, st *State, name string, recvT types.Type, args []Val, rt types.Type, pos string) (Val, bool) {
	if !e.OwnCheck {
		return Val{}, false
	}
	c := e.C
	switch name {
	case "DeepCopyInto":
		in, out := args[0], args[1]
		e.nilCheck(st, in, pos, "DeepCopyInto on nil receiver")
		e.nilCheck(st, out, pos, "DeepCopyInto into nil")
		el := types.Unalias(in.Typ).Underlying().(*types.Pointer).Elem()
		before := st.Alloc
		na := c.Fresh("alloc", smt.Int)
		e.assume(st, c.Op(">=", smt.Bool, na, st.Alloc))
		st.Alloc = na
		e.quiet++
		inV := e.load(st.clone(), in, el)
		e.quiet--
		nv := e.fresh("deepcopy.out", el)
		e.assume(st, e.validVal(st, nv))
		refs, scalars := e.refComps(el, 0, "")
		for _, r := range refs {
			ov, iv := nv.Terms[r.idx], inV.Terms[r.idx]
			on, in2 := ov, iv
			if r.kind == "iface" {
				on, in2 = nv.Terms[r.nilIdx], inV.Terms[r.nilIdx]
			}
			e.assume(st, c.And(c.Or(c.Eq(ov, c.IntLit(0)), c.Op(">=", smt.Bool, ov, before)), c.Eq(c.Eq(on, c.IntLit(0)), c.Eq(in2, c.IntLit(0)))))
			if r.kind == "slice" {
				e.assume(st, c.Eq(nv.Terms[r.lenIdx], inV.Terms[r.lenIdx]))
			}
		}
		for _, k := range scalars {
			e.assume(st, c.Eq(nv.Terms[k], inV.Terms[k]))
		}
		if out.Ptr == nil {
			e.wrapPtr(&out)
		}
		e.frameCheck(f, st, out, pos)
		e.store(st, out, nv)
		e.note("callees of the DeepCopy family are used through the generated ownership summary (each is checked against it)")
		return Val{Typ: rt}, true
	case "DeepCopy", "DeepCopyMessage", "DeepCopyDataType":
		in := args[0]
		before := st.Alloc
		v := e.havocResult(st, "deepcopy", rt)
		inNil := c.Eq(in.Terms[0], c.IntLit(0))
		var ref *smt.Term
		if isInterface(rt) {
			ref = v.Terms[1]
			e.oblige(st, "nil", "", c.Not(inNil), pos, "method call on nil interface")
		} else {
			ref = v.Terms[0]
		}
		e.assume(st, c.Implies(c.Not(inNil), c.And(c.Not(c.Eq(v.Terms[0], c.IntLit(0))), c.Not(c.Eq(ref, c.IntLit(0))), c.Op(">=", smt.Bool, ref, before))))
		e.assume(st, c.Implies(inNil, c.Eq(v.Terms[0], c.IntLit(0))))
		if isInterface(rt) && isInterface(in.Typ) {
			// the copy has the dynamic type of the original
			e.assume(st, c.Implies(c.Not(inNil), c.Eq(v.Terms[0], in.Terms[0])))
		}
		return v, true
	}
	return Val{}, false
}

func ownFamilyName(fn *ssa.Function) string {
	k := deepCopyKind(fn)
	if k != "" && (strings.HasPrefix(FuncKey(fn), "(*") || strings.HasPrefix(FuncKey(fn), "(")) {
		return k
	}
	return ""
}

var _ = fmt.Sprintf
