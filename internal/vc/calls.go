package vc

import (
	"fmt"
	"go/types"
	"strings"

	"golang.org/x/tools/go/ssa"

	"verif/internal/smt"
)

const repoPrefix = "github.com/datastax/go-cassandra-native-protocol"

func inRepo(fn *ssa.Function) bool {
	if fn == nil {
		return false
	}
	if fn.Pkg != nil {
		return strings.HasPrefix(fn.Pkg.Pkg.Path(), repoPrefix)
	}
	if fn.Parent() != nil {
		return inRepo(fn.Parent())
	}
	// synthetic wrappers / method of instantiated types
	if recv := fn.Signature.Recv(); recv != nil {
		t := recv.Type()
		if p, ok := t.(*types.Pointer); ok {
			t = p.Elem()
		}
		if n, ok := types.Unalias(t).(*types.Named); ok && n.Obj().Pkg() != nil {
			return strings.HasPrefix(n.Obj().Pkg().Path(), repoPrefix)
		}
	}
	return false
}

// FuncKey is the name used for functions in contracts and obligation names: pkg.Func, pkg.(*T).M, pkg.(T).M,
// closures as parent$N.
func FuncKey(fn *ssa.Function) string {
	s := fn.String()
	s = strings.ReplaceAll(s, repoPrefix+"/", "")
	return s
}

func (e *Engine) validVal(st *State, v Val) *smt.Term {
	switch u := types.Unalias(v.Typ).Underlying().(type) {
	case *types.Pointer, *types.Map, *types.Chan, *types.Signature:
		return e.C.And(e.C.Op(">=", smt.Bool, v.Terms[0], e.C.IntLit(0)), e.C.Op("<", smt.Bool, v.Terms[0], st.Alloc))
	case *types.Slice:
		return e.validSlice(st, v)
	case *types.Interface:
		return e.validIface(st, v)
	case *types.Basic:
		if u.Info()&types.IsString != 0 {
			l := e.strLen(v.Terms[0])
			return e.C.And(e.C.Op("bvsle", smt.Bool, e.C.BVLit64(0, 64), l), e.C.Op("bvsle", smt.Bool, l, e.C.BVLit64(sizeBound, 64)))
		}
	case *types.Struct:
		var cs []*smt.Term
		off := 0
		for i := 0; i < u.NumFields(); i++ {
			n := len(e.comps(u.Field(i).Type()))
			fv := Val{Typ: u.Field(i).Type(), Terms: v.Terms[off : off+n]}
			cs = append(cs, e.validVal(st, fv))
			off += n
		}
		return e.C.And(cs...)
	case *types.Tuple:
		var cs []*smt.Term
		off := 0
		for i := 0; i < u.Len(); i++ {
			n := len(e.comps(u.At(i).Type()))
			fv := Val{Typ: u.At(i).Type(), Terms: v.Terms[off : off+n]}
			cs = append(cs, e.validVal(st, fv))
			off += n
		}
		return e.C.And(cs...)
	}
	return e.C.True()
}

// havocResult makes an unconstrained but type-valid result for a call whose callee is not modelled.
func (e *Engine) havocResult(st *State, hint string, t types.Type) Val {
	// results may be freshly allocated objects: bump the allocation counter by an unknown amount first
	na := e.C.Fresh("alloc", smt.Int)
	e.assume(st, e.C.Op(">=", smt.Bool, na, st.Alloc))
	st.Alloc = na
	v := e.fresh(hint, t)
	e.assume(st, e.validVal(st, v))
	return v
}

func resultType(sig *types.Signature) types.Type {
	switch sig.Results().Len() {
	case 0:
		return types.NewTuple()
	case 1:
		return sig.Results().At(0).Type()
	}
	return sig.Results()
}

// call handles every kind of call instruction.
func (e *Engine) call(f *frame, st *State, instr ssa.Value, cc *ssa.CallCommon, pos string) Val {
	var args []Val
	for _, a := range cc.Args {
		args = append(args, f.get(a))
	}
	rt := resultType(cc.Signature())
	if b, ok := cc.Value.(*ssa.Builtin); ok {
		return e.builtin(f, st, b, cc, args, rt, pos)
	}
	if cc.IsInvoke() {
		recv := f.get(cc.Value)
		// statically known dynamic type?
		if recv.Known != nil {
			if fn := e.W.Prog.LookupMethod(recv.Known.Typ, cc.Method.Pkg(), cc.Method.Name()); fn != nil {
				return e.staticCall(f, st, fn, append([]Val{*recv.Known}, args...), nil, rt, pos, cc)
			}
		}
		if e.OwnCheck && (cc.Method.Name() == "DeepCopyMessage" || cc.Method.Name() == "DeepCopyDataType") {
			if v, ok := e.ownSummary(f, st, cc.Method.Name(), cc.Value.Type(), append([]Val{recv}, args...), rt, pos); ok {
				return v
			}
		}
		e.oblige(st, "nil", "", e.C.Not(e.C.Eq(recv.Terms[0], e.C.IntLit(0))), pos, "method call on nil interface")
		key := typeStr(cc.Value.Type()) + "." + cc.Method.Name()
		if m, ok := invokeModels[key]; ok {
			e.UsedModels[key] = true
			return m(e, f, st, recv, args, rt, pos)
		}
		if m, ok := invokeModels["*."+cc.Method.Name()+"/"+fmt.Sprint(len(args))]; ok && externalIface(cc.Value.Type()) {
			e.UsedModels[key] = true
			return m(e, f, st, recv, args, rt, pos)
		}
		return e.invokeUnknown(f, st, cc, recv, args, rt, pos)
	}
	if fn := cc.StaticCallee(); fn != nil {
		var binds []Val
		if mc, ok := cc.Value.(*ssa.MakeClosure); ok {
			for _, b := range mc.Bindings {
				binds = append(binds, f.get(b))
			}
		}
		return e.staticCall(f, st, fn, args, binds, rt, pos, cc)
	}
	// dynamic call through a function value
	fv := f.get(cc.Value)
	if fv.Fn != nil {
		return e.staticCall(f, st, fv.Fn, args, fv.Binds, rt, pos, cc)
	}
	e.oblige(st, "nil", "", e.C.Not(e.C.Eq(fv.Terms[0], e.C.IntLit(0))), pos, "call of nil function value")
	if typeStr(cc.Value.Type()) == "context.CancelFunc" {
		// cancelling a context closes that context's Done channel and nothing else; Done channels are not tracked
		// (every ctx.Done() yields a channel in an unknown state), so the call has no effect on modelled state
		e.note("ASSUMED: a context.CancelFunc affects only its own context (whose Done channel is not tracked)")
		return Val{Typ: rt}
	}
	if top := topFrame(f); top.ct != nil && top.ct.NoEffect[strings.ReplaceAll(typeStr(cc.Value.Type()), repoPrefix+"/", "")] {
		e.note("ASSUMED (contract of " + FuncKey(top.fn) + "): callbacks of type " + typeStr(cc.Value.Type()) + " have no effect on the state the contract speaks about")
		return e.havocResult(st, "callback", rt)
	}
	if prm, ok := cc.Value.(*ssa.Parameter); ok && f.ct != nil {
		for i, cl := range f.ct.Calls[prm.Name()] {
			ctx := &evalCtx{e: e, f: f, st: st, old: f.entry, bound: map[string]EV{}, pkg: typesPkgOf(f.fn)}
			for k, a := range args {
				ctx.bound[fmt.Sprintf("arg%d", k)] = EV{V: a}
			}
			e.oblige(st, "pre", fmt.Sprintf("%s.%s@%s", prm.Name(), clauseLabel(cl, i), callOrd(e, "dyn:"+prm.Name())), ctx.boolean(cl.Expr, cl.Text), pos,
				"callback "+prm.Name()+" may only be called with: "+cl.Text)
		}
	}
	e.shareArgs(st, nil, cc.Signature(), args, "dyncall", pos)
	e.note("dynamic call of unknown function value: all memory havocked, results unconstrained")
	e.havocFamilies(st, []string{"*"})
	res := e.havocResult(st, "dyncall", rt)
	if prm, ok := cc.Value.(*ssa.Parameter); ok && f.ct != nil {
		for _, cl := range f.ct.CallsEns[prm.Name()] {
			ctx := &evalCtx{e: e, f: f, st: st, old: f.entry, bound: map[string]EV{}, pkg: typesPkgOf(f.fn)}
			for k, a := range args {
				ctx.bound[fmt.Sprintf("arg%d", k)] = EV{V: a}
			}
			if tup, ok := rt.(*types.Tuple); ok {
				for k := 0; k < tup.Len(); k++ {
					off, n := e.tupleRange(tup, k)
					rv := Val{Typ: tup.At(k).Type(), Terms: res.Terms[off : off+n]}
					e.wrapPtr(&rv)
					ctx.bound[fmt.Sprintf("result%d", k)] = EV{V: rv}
				}
			} else {
				ctx.bound["result0"] = EV{V: res}
			}
			e.assume(st, ctx.boolean(cl.Expr, cl.Text))
			e.note("assumed about callback " + prm.Name() + ": " + cl.Text)
		}
	}
	return res
}

func externalIface(t types.Type) bool {
	if n, ok := types.Unalias(t).(*types.Named); ok && n.Obj().Pkg() != nil {
		return !strings.HasPrefix(n.Obj().Pkg().Path(), repoPrefix)
	}
	return true
}

func (e *Engine) invokeUnknown(f *frame, st *State, cc *ssa.CallCommon, recv Val, args []Val, rt types.Type, pos string) Val {
	key := typeStr(cc.Value.Type()) + "." + cc.Method.Name()
	// interface-level contract?
	if ct := e.W.Contracts["iface "+key]; ct != nil {
		e.shareInvoke(st, cc, recv, args, key, pos)
		return e.applyContract(f, st, ct, nil, ct.IfaceSig, append([]Val{recv}, args...), rt, pos, key)
	}
	// methods that return a constant in every implementer (GetOpCode, IsResponse, ...) are pure functions of the
	// dynamic type: f(tag), with f(tag_T) = the constant T's method returns
	if v, ok := e.constMethod(st, cc, recv, rt); ok {
		return v
	}
	// repo interface: effect = union of implementers' mod sets
	e.shareInvoke(st, cc, recv, args, key, pos)
	ms := e.W.invokeModSet(cc.Value.Type(), cc.Method)
	e.note("interface method " + key + " without contract: results unconstrained, mod-set of all implementers havocked")
	e.havocFamilies(st, ms.list())
	res := e.havocResult(st, cc.Method.Name(), rt)
	if e.Share != nil && (strings.HasPrefix(key, "datacodec.extractor.") || strings.HasPrefix(key, "datacodec.keyValueExtractor.")) {
		// elements and keys an extractor hands out are parts of the caller's source value (the extractor is a view of
		// it built for this call): caller-owned
		if tup, ok := rt.(*types.Tuple); ok {
			for k := 0; k < tup.Len(); k++ {
				off, n := e.tupleRange(tup, k)
				e.ownAssume(Val{Typ: tup.At(k).Type(), Terms: res.Terms[off : off+n]})
			}
		} else {
			e.ownAssume(res)
		}
		e.note("ASSUMED (C18): what an extractor returns belongs to the caller's source value")
	}
	return res
}

func (e *Engine) staticCall(f *frame, st *State, fn *ssa.Function, args []Val, binds []Val, rt types.Type, pos string, cc *ssa.CallCommon) Val {
	name := fn.String()
	if fn.Synthetic != "" && fn.Blocks == nil && fn.Origin() != nil {
		fn = fn.Origin()
	}
	if e.OwnCheck && ownFamilyName(fn) != "" {
		if v, ok := e.ownSummary(f, st, fn.Name(), nil, args, rt, pos); ok {
			return v
		}
	}
	if m, ok := callModels[name]; ok {
		e.UsedModels[name] = true
		return m(e, f, st, args, rt, pos)
	}
	if isMutexCallName(name) {
		e.note("sync.Mutex/RWMutex operations are no-ops (sequential semantics)")
		return Val{Typ: rt}
	}
	if inRepo(fn) {
		key := FuncKey(fn)
		// method receivers may be nil: callee dereferences are its own obligation, but with a contract the
		// caller must establish "receiver != nil" only if the contract requires it.
		ct := e.W.Contracts[key]
		if top := topFrame(f); top.ct != nil && top.ct.Expand[key] {
			// the function under verification asks for this callee's body (lemmas about the body itself)
			rets, exit, _ := e.execFunc(fn, args, binds, st, f, ct)
			*st = *exit
			return packResults(rt, rets)
		}
		if ct != nil && !ct.Inline {
			e.shareArgs(st, fn, fn.Signature, append(append([]Val{}, args...), binds...), key, pos)
			return e.applyContract(f, st, ct, fn, fn.Signature, args, rt, pos, key)
		}
		if e.canInline(f, fn, ct) {
			rets, exit, _ := e.execFunc(fn, args, binds, st, f, ct)
			*st = *exit
			return packResults(rt, rets)
		}
		ms := e.W.modSet(fn)
		e.shareArgs(st, fn, fn.Signature, append(append([]Val{}, args...), binds...), key, pos)
		e.checkDefaultPre(st, fn, nil, args, key, pos)
		e.note("call of " + key + " without contract: results unconstrained, its static mod-set havocked")
		fams := ms.list()
		if keys, ok := e.streamArgsOnly(fn, args); ok && !ms.all {
			// the callee can reach no stream except the ones handed to it: only those are havocked
			var rest []string
			for _, fm := range fams {
				if fm != "G<stream>" {
					rest = append(rest, fm)
				}
			}
			if len(rest) != len(fams) {
				fams = rest
				for _, k := range keys {
					e.havocStream(st, k.key, k.read, k.write)
				}
				e.note("callees without contract whose parameters cannot hold a reader or writer other than the ones passed directly touch only those streams (no package-level variable of the codec packages holds a stream)")
			}
		}
		e.havocFamilies(st, fams)
		return e.havocResult(st, fn.Name(), rt)
	}
	if pp := pkgPathOf(fn); strings.HasPrefix(pp, "github.com/rs/zerolog") {
		// logging: assumed to have no effect on program state; results are opaque handles
		e.note("zerolog logging calls are assumed to have no effect on program state")
		return e.havocResult(st, "log", rt)
	}
	// unmodelled external function
	if strings.HasPrefix(name, "(*math/big.Int).") && len(args) > 0 && typeStr(rt) == "*math/big.Int" {
		// z.Op(...) computes into the receiver and returns it (documented for every arithmetic method of big.Int);
		// the value is not modelled
		e.nilCheck(st, args[0], pos, "nil *big.Int")
		e.frameCheckRef(f, st, args[0].Terms[0], "cell:math/big.Int", pos)
		e.bigSet(st, args[0].Terms[0], e.C.Fresh("big.unmodelled", smt.BV(bigW)))
		e.note("unmodelled (*big.Int)." + fn.Name() + ": writes and returns its receiver, value unconstrained")
		v := Val{Typ: rt, Terms: []*smt.Term{args[0].Terms[0]}}
		e.wrapPtr(&v)
		return v
	}
	if e.Share != nil && !readOnlyExternalFn(name) {
		e.shareArgs(st, nil, fn.Signature, args, name, pos)
	}
	e.note("external function " + name + " is not modelled: results unconstrained, memory reachable through slice/pointer arguments havocked")
	var fams []string
	for _, a := range args {
		fams = append(fams, e.argFamilies(a)...)
	}
	e.havocFamilies(st, fams)
	return e.havocResult(st, fn.Name(), rt)
}

func isMutexCallName(s string) bool {
	switch s {
	case "(*sync.Mutex).Lock", "(*sync.Mutex).Unlock", "(*sync.RWMutex).Lock", "(*sync.RWMutex).Unlock", "(*sync.RWMutex).RLock", "(*sync.RWMutex).RUnlock":
		return true
	}
	return false
}

func (e *Engine) argFamilies(a Val) []string {
	switch u := types.Unalias(a.Typ).Underlying().(type) {
	case *types.Slice:
		var out []string
		for k := range e.comps(u.Elem()) {
			out = append(out, family(elemName(u.Elem(), k)))
		}
		return out
	case *types.Pointer:
		var out []string
		for _, n := range e.heapNamesOf(u.Elem(), false) {
			out = append(out, family(n))
		}
		return out
	case *types.Map:
		var out []string
		for _, n := range e.mapFamilies(a.Typ) {
			out = append(out, family(n))
		}
		return out
	case *types.Interface:
		if a.Known != nil {
			return e.argFamilies(*a.Known)
		}
	}
	return nil
}

func packResults(rt types.Type, rets []Val) Val {
	if tup, ok := rt.(*types.Tuple); ok {
		out := Val{Typ: tup}
		for _, r := range rets {
			out.Terms = append(out.Terms, r.Terms...)
		}
		return out
	}
	if len(rets) == 1 {
		return rets[0]
	}
	return Val{Typ: rt}
}

// canInline: loop-free, non-recursive, small bodies are executed in place (their strongest postcondition).
func (e *Engine) canInline(f *frame, fn *ssa.Function, ct *Contract) bool {
	if fn.Blocks == nil || f.depth >= maxInlineDepth {
		return false
	}
	for x := f; x != nil; x = x.parent {
		if x.fn == fn {
			return false
		}
	}
	if e.W.NoInline[FuncKey(fn)] {
		return false
	}
	info := e.W.fnInfo(fn)
	if info.rejects && !(e.AbstractConc && !info.hard) {
		return false
	}
	if ct != nil && ct.Inline {
		return true // loops are unrolled or cut by the contract's annotations
	}
	return !info.hasLoop && info.size <= 400
}

// ---- builtins ----------------------------------------------------------------------------------

func (e *Engine) builtin(f *frame, st *State, b *ssa.Builtin, cc *ssa.CallCommon, args []Val, rt types.Type, pos string) Val {
	c := e.C
	switch b.Name() {
	case "len":
		a := args[0]
		if ci, ok := e.chanInfoOf(cc.Args[0].Type()); ok && e.AbstractConc {
			_, ln, _, _ := e.chanArrs(st, ci)
			e.chanValid(st, ci, a.Terms[0])
			return Val{Typ: rt, Terms: []*smt.Term{c.Select(ln, a.Terms[0])}}
		}
		switch types.Unalias(cc.Args[0].Type()).Underlying().(type) {
		case *types.Slice:
			return Val{Typ: rt, Terms: []*smt.Term{a.Terms[2]}}
		case *types.Basic:
			l := e.strLen(a.Terms[0])
			e.assume(st, c.And(c.Op("bvsle", smt.Bool, c.BVLit64(0, 64), l), c.Op("bvsle", smt.Bool, l, c.BVLit64(sizeBound, 64))))
			return Val{Typ: rt, Terms: []*smt.Term{l}}
		case *types.Map:
			a.Typ = cc.Args[0].Type()
			return Val{Typ: rt, Terms: []*smt.Term{e.mapLen(st, a)}}
		case *types.Array:
			at := types.Unalias(cc.Args[0].Type()).Underlying().(*types.Array)
			return Val{Typ: rt, Terms: []*smt.Term{c.BVLit64(at.Len(), 64)}}
		case *types.Pointer:
			at := types.Unalias(cc.Args[0].Type()).Underlying().(*types.Pointer).Elem().Underlying().(*types.Array)
			return Val{Typ: rt, Terms: []*smt.Term{c.BVLit64(at.Len(), 64)}}
		}
	case "cap":
		if isSlice(cc.Args[0].Type()) {
			return Val{Typ: rt, Terms: []*smt.Term{args[0].Terms[3]}}
		}
		if ci, ok := e.chanInfoOf(cc.Args[0].Type()); ok && e.AbstractConc {
			_, _, cp, _ := e.chanArrs(st, ci)
			return Val{Typ: rt, Terms: []*smt.Term{c.Select(cp, args[0].Terms[0])}}
		}
	case "close":
		if e.AbstractConc && e.closeChan(f, st, cc.Args[0].Type(), args[0], pos) {
			return Val{Typ: rt}
		}
		if e.AbstractConc {
			e.note("close of an unmodelled channel is ignored (channels of non-scalar elements are opaque)")
			return Val{Typ: rt}
		}
	case "append":
		return e.appendModel(f, st, cc, args, rt, pos)
	case "copy":
		return e.copyModel(f, st, cc, args, rt, pos)
	case "delete":
		m := args[0]
		m.Typ = cc.Args[0].Type()
		e.frameCheckRef(f, st, m.Terms[0], "map", pos)
		e.mapDelete(st, m, args[1].Terms[0])
		return Val{Typ: rt}
	case "print", "println":
		return Val{Typ: rt}
	case "ssa:wrapnilchk":
		e.nilCheck(st, args[0], pos, "nil receiver in method wrapper")
		return e.retag(args[0], rt)
	case "min", "max":
	}
	panic(reject("builtin " + b.Name()))
}

// appendModel: result is a slice with the old elements followed by the new ones. The backing array is either
// reused (len+n <= cap) or fresh; both are covered by returning a slice over an array that agrees on [0,len).
func (e *Engine) appendModel(f *frame, st *State, cc *ssa.CallCommon, args []Val, rt types.Type, pos string) Val {
	c := e.C
	s, t := args[0], args[1]
	el := types.Unalias(rt).Underlying().(*types.Slice).Elem()
	e.ownBulk(st, el, t, isString(cc.Args[1].Type()), pos, "append")
	var n *smt.Term
	tIsString := isString(cc.Args[1].Type())
	if tIsString {
		n = e.strLen(t.Terms[0])
	} else {
		n = t.Terms[2]
	}
	newLen := c.Op("bvadd", smt.BV(64), s.Terms[2], n)
	fits := c.Op("bvsle", smt.Bool, newLen, s.Terms[3])
	// new backing array (used when it does not fit)
	fresh := e.newRef(st)
	newCap := c.Fresh("append.cap", smt.BV(64))
	e.assume(st, c.And(c.Op("bvsle", smt.Bool, newLen, newCap), c.Op("bvsle", smt.Bool, newCap, c.BVLit64(sizeBound, 64))))
	comps := e.comps(el)
	// element-wise effect is exact only for appending a single-element varargs slice (the common x = append(x, v))
	single := false
	if !tIsString {
		if lit, ok := n.BVValue(); ok && lit.Int64() == 1 {
			single = true
		}
	}
	if !single {
		if sl, ok := cc.Args[1].(*ssa.Slice); ok {
			if al, ok := sl.X.(*ssa.Alloc); ok {
				if at, ok := al.Type().(*types.Pointer).Elem().Underlying().(*types.Array); ok && at.Len() == 1 {
					single = true
				}
			}
		}
	}
	ref := c.Ite(fits, s.Terms[0], fresh)
	off := c.Ite(fits, s.Terms[1], c.BVLit64(0, 64))
	cp := c.Ite(fits, s.Terms[3], newCap)
	for k, so := range comps {
		name := elemName(el, k)
		as := smt.Array(smt.BV(64), so)
		arr := e.heapArr(st, name, smt.Array(smt.Int, as))
		oldInner := c.Select(arr, s.Terms[0])
		// copied prefix: an uninterpreted "window" function gives fresh[i] = old[off+i] for i<len
		var srcInner *smt.Term
		if tIsString {
			srcInner = c.App("gs.bytes", as, t.Terms[0])
		} else {
			srcInner = c.Select(arr, t.Terms[0])
		}
		var inPlace, moved *smt.Term
		if single && !tIsString {
			v := c.Select(srcInner, t.Terms[1])
			inPlace = c.Store(oldInner, c.Op("bvadd", smt.BV(64), s.Terms[1], s.Terms[2]), v)
			moved = c.Store(c.App("arr.window."+string(sortTag(so)), as, oldInner, s.Terms[1], s.Terms[2]), s.Terms[2], v)
		} else {
			srcOff := c.BVLit64(0, 64)
			if !tIsString {
				srcOff = t.Terms[1]
			}
			inPlace = c.App("arr.splice."+string(sortTag(so)), as, oldInner, c.Op("bvadd", smt.BV(64), s.Terms[1], s.Terms[2]), srcInner, srcOff, n)
			moved = c.App("arr.splice."+string(sortTag(so)), as, c.App("arr.window."+string(sortTag(so)), as, oldInner, s.Terms[1], s.Terms[2]), s.Terms[2], srcInner, srcOff, n)
		}
		a2 := c.Store(arr, fresh, moved)
		// in-place write happens only when it fits
		a3 := c.Ite(fits, c.Store(arr, s.Terms[0], inPlace), a2)
		st.Heap[name] = a3
	}
	return Val{Typ: rt, Terms: []*smt.Term{ref, off, newLen, cp}}
}

func sortTag(s smt.Sort) string {
	r := strings.NewReplacer("(", "", ")", "", " ", "_")
	return r.Replace(string(s))
}

func (e *Engine) copyModel(f *frame, st *State, cc *ssa.CallCommon, args []Val, rt types.Type, pos string) Val {
	c := e.C
	dst, src := args[0], args[1]
	el := types.Unalias(cc.Args[0].Type()).Underlying().(*types.Slice).Elem()
	var n, srcLen *smt.Term
	srcIsString := isString(cc.Args[1].Type())
	if srcIsString {
		srcLen = e.strLen(src.Terms[0])
	} else {
		srcLen = src.Terms[2]
	}
	n = c.Ite(c.Op("bvsle", smt.Bool, dst.Terms[2], srcLen), dst.Terms[2], srcLen)
	e.frameCheckRef(f, st, dst.Terms[0], "elem:"+typeStr(el), pos)
	e.ownBulk(st, el, src, srcIsString, pos, "copy")
	for k, so := range e.comps(el) {
		name := elemName(el, k)
		as := smt.Array(smt.BV(64), so)
		arr := e.heapArr(st, name, smt.Array(smt.Int, as))
		var srcInner *smt.Term
		srcOff := c.BVLit64(0, 64)
		if srcIsString {
			srcInner = c.App("gs.bytes", as, src.Terms[0])
		} else {
			srcInner = c.Select(arr, src.Terms[0])
			srcOff = src.Terms[1]
		}
		st.Heap[name] = c.Store(arr, dst.Terms[0], c.App("arr.splice."+sortTag(so), as, c.Select(arr, dst.Terms[0]), dst.Terms[1], srcInner, srcOff, n))
	}
	return Val{Typ: rt, Terms: []*smt.Term{n}}
}

// constMethod models an interface method all of whose repository implementers are "return <constant>".
func (e *Engine) constMethod(st *State, cc *ssa.CallCommon, recv Val, rt types.Type) (Val, bool) {
	if len(cc.Args) != 0 {
		return Val{}, false
	}
	return e.constMethodFor(cc.Value.Type(), cc.Method, recv, rt)
}

func (e *Engine) constMethodFor(ifaceT types.Type, method *types.Func, recv Val, rt types.Type) (Val, bool) {
	if externalIface(ifaceT) {
		return Val{}, false
	}
	sorts := e.comps(rt)
	if len(sorts) != 1 {
		return Val{}, false
	}
	it := types.Unalias(ifaceT).Underlying().(*types.Interface)
	impls := e.W.implementers(it)
	if len(impls) == 0 {
		return Val{}, false
	}
	type entry struct {
		t types.Type
		c *ssa.Const
	}
	var table []entry
	for _, t := range impls {
		fn := e.W.Prog.LookupMethod(t, method.Pkg(), method.Name())
		if fn == nil {
			return Val{}, false
		}
		for fn.Synthetic != "" && len(fn.Blocks) > 0 {
			// wrapper (*T).m around (T).m: follow the single call
			var callee *ssa.Function
			for _, in := range fn.Blocks[0].Instrs {
				if call, ok := in.(*ssa.Call); ok {
					callee = call.Call.StaticCallee()
				}
			}
			if callee == nil || callee == fn {
				break
			}
			fn = callee
		}
		if len(fn.Blocks) != 1 {
			return Val{}, false
		}
		ret, ok := fn.Blocks[0].Instrs[len(fn.Blocks[0].Instrs)-1].(*ssa.Return)
		if !ok || len(ret.Results) != 1 {
			return Val{}, false
		}
		k, ok := ret.Results[0].(*ssa.Const)
		if !ok {
			return Val{}, false
		}
		table = append(table, entry{t, k})
	}
	name := "const." + typeStr(ifaceT) + "." + method.Name()
	if !e.constTables[name] {
		if e.constTables == nil {
			e.constTables = map[string]bool{}
		}
		e.constTables[name] = true
		for _, en := range table {
			e.assumeGlobal(e.C.Eq(e.C.App(name, sorts[0], e.C.IntLit(int64(e.typeTag(en.t)))), e.constVal(en.c).Terms[0]))
		}
		e.note("interface method " + name[6:] + " returns a constant in every repository implementer; modelled as a function of the dynamic type (implementers outside the repository are not considered)")
	}
	return Val{Typ: rt, Terms: []*smt.Term{e.C.App(name, sorts[0], recv.Terms[0])}}, true
}

func topFrame(f *frame) *frame {
	for f.parent != nil {
		f = f.parent
	}
	return f
}

// ownBulk: bulk copies (copy, append) of reference-typed elements would share them; allowed only from fresh arrays.
func (e *Engine) ownBulk(st *State, el types.Type, src Val, srcIsString bool, pos, what string) {
	if !e.OwnCheck || e.quiet > 0 || srcIsString {
		return
	}
	refs, _ := e.refComps(el, 0, "")
	if len(refs) == 0 {
		return
	}
	c := e.C
	e.oblige(st, "own", "", c.Or(c.Eq(src.Terms[2], c.BVLit64(0, 64)), e.isFresh(src.Terms[0])), pos, what+" of reference-typed elements copies them shallowly (shares them with the original)")
}

// havocStream forgets position and/or (append-only) contents of one stream.
func (e *Engine) havocStream(st *State, key *smt.Term, read, write bool) {
	c := e.C
	if write {
		oldCnt := e.ghostGet(st, gCount, key)
		oldW := e.ghostGet(st, gWData, key)
		newCnt := c.Fresh("havoc.count", smt.BV(64))
		chunk := c.Fresh("havoc.chunk", bytesInner)
		newW := c.App("arr.splice."+sortTag(smt.BV(8)), bytesInner, oldW, oldCnt, chunk, c.BVLit64(0, 64), bvsub(c, newCnt, oldCnt))
		e.ghostSet(st, gCount, key, newCnt)
		e.ghostSet(st, gWData, key, newW)
		e.assume(st, bvle(c, oldCnt, newCnt))
	}
	if read {
		e.ghostSet(st, gPos, key, c.Fresh("havoc.pos", smt.BV(64)))
	}
}

type streamArg struct {
	key         *smt.Term
	read, write bool
}

// streamArgsOnly: every parameter of fn is either a stream handed over directly (io.Reader, io.Writer, *bytes.Buffer,
// *bytes.Reader) or of a type that cannot hold a stream; returns the keys of the former.
func (e *Engine) streamArgsOnly(fn *ssa.Function, args []Val) ([]streamArg, bool) {
	if len(fn.FreeVars) > 0 {
		return nil, false
	}
	var keys []streamArg
	for i, p := range fn.Params {
		if i >= len(args) {
			return nil, false
		}
		switch typeStr(p.Type()) {
		case "io.Reader", "*bytes.Reader", "io.ByteReader":
			keys = append(keys, streamArg{streamKey(args[i]), true, false})
			continue
		case "io.Writer", "io.ByteWriter":
			keys = append(keys, streamArg{streamKey(args[i]), false, true})
			continue
		case "*bytes.Buffer":
			keys = append(keys, streamArg{streamKey(args[i]), true, true})
			continue
		}
		if !e.W.typeNoStream(p.Type(), map[string]bool{}) {
			return nil, false
		}
	}
	return keys, true
}

// typeNoStream: no value of type t can hold (a reference to) a reader or writer.
func (w *World) typeNoStream(t types.Type, seen map[string]bool) bool {
	ts := typeStr(t)
	if seen[ts] {
		return true
	}
	seen[ts] = true
	if strings.HasPrefix(ts, "*bytes.") || strings.HasPrefix(ts, "bytes.") || strings.HasPrefix(ts, "io.") || strings.HasPrefix(ts, "*io.") || strings.HasPrefix(ts, "net.Conn") || strings.HasPrefix(ts, "*bufio.") {
		return false
	}
	switch u := types.Unalias(t).Underlying().(type) {
	case *types.Basic:
		return true
	case *types.Pointer:
		return w.typeNoStream(u.Elem(), seen)
	case *types.Slice:
		return w.typeNoStream(u.Elem(), seen)
	case *types.Array:
		return w.typeNoStream(u.Elem(), seen)
	case *types.Map:
		return w.typeNoStream(u.Key(), seen) && w.typeNoStream(u.Elem(), seen)
	case *types.Struct:
		for i := 0; i < u.NumFields(); i++ {
			if !w.typeNoStream(u.Field(i).Type(), seen) {
				return false
			}
		}
		return true
	case *types.Interface:
		if externalIface(t) {
			return ts == "error"
		}
		for _, impl := range w.implementers(u) {
			if !w.typeNoStream(impl, seen) {
				return false
			}
		}
		return true
	}
	return false
}
