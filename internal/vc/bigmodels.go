package vc

import (
	"go/types"
	"math/big"

	"verif/internal/smt"
)

// math/big.Int is abstracted to its mathematical value, kept in a ghost array keyed by the *big.Int reference.
// Values are modelled as signed 256-bit vectors: an honest bound ("|value| < 2^255"), reported as an assumption.
const bigW = 256

const gBig = "G<bigint>.val"

func (e *Engine) bigArr(st *State) *smt.Term {
	return e.heapArr(st, gBig, smt.Array(smt.Int, smt.BV(bigW)))
}

func (e *Engine) bigVal(st *State, ref *smt.Term) *smt.Term {
	e.note("math/big.Int values are modelled as signed 256-bit integers (|value| < 2^255)")
	return e.C.Select(e.bigArr(st), ref)
}

func (e *Engine) bigSet(st *State, ref, v *smt.Term) {
	st.Heap[gBig] = e.C.Store(e.bigArr(st), ref, v)
}

func registerBigModels() {
	i64 := func(c *smt.Ctx, v *smt.Term) *smt.Term { return c.Extend(v, bigW, true) }
	u64 := func(c *smt.Ctx, v *smt.Term) *smt.Term { return c.Extend(v, bigW, false) }
	ptrRes := func(e *Engine, rt types.Type, ref *smt.Term) Val {
		v := Val{Typ: rt, Terms: []*smt.Term{ref}}
		e.wrapPtr(&v)
		return v
	}
	lit := func(c *smt.Ctx, s string) *smt.Term {
		b, _ := new(big.Int).SetString(s, 10)
		return c.BVLit(b, bigW)
	}
	// (*big.Float).Float64 / Float32: the nearest float and how it relates to the exact value. Whether the conversion is
	// exact is a property of the big.Float value alone: bigfloat.exact64(x) / bigfloat.exact32(x) (uninterpreted);
	// the returned accuracy is big.Exact (0) exactly in that case, otherwise Below (-1) or Above (+1).
	for _, w := range []string{"64", "32"} {
		w := w
		callModels["(*math/big.Float).Float"+w] = func(e *Engine, f *frame, st *State, args []Val, rt types.Type, pos string) Val {
			c := e.C
			e.nilCheck(st, args[0], pos, "nil *big.Float")
			tup := rt.(*types.Tuple)
			v := e.fresh("bigfloat.f"+w, tup.At(0).Type())
			acc := c.Fresh("bigfloat.acc", smt.BV(8))
			exact := c.App("bigfloat.exact"+w, smt.Bool, args[0].Terms[0])
			e.assume(st, c.And(c.Eq(exact, c.Eq(acc, c.BVLit64(0, 8))),
				c.Or(c.Eq(acc, c.BVLit64(0, 8)), c.Eq(acc, c.BVLit64(1, 8)), c.Eq(acc, c.BVLit64(-1, 8)))))
			e.note("(*big.Float).Float" + w + ": result unconstrained, accuracy == big.Exact exactly when the value is representable (assumed contract of math/big)")
			return Val{Typ: rt, Terms: append(append([]*smt.Term{}, v.Terms...), acc)}
		}
	}
	callModels["math/big.NewInt"] = func(e *Engine, f *frame, st *State, args []Val, rt types.Type, pos string) Val {
		ref := e.newRef(st)
		e.bigSet(st, ref, i64(e.C, args[0].Terms[0]))
		return ptrRes(e, rt, ref)
	}
	callModels["(*math/big.Int).SetInt64"] = func(e *Engine, f *frame, st *State, args []Val, rt types.Type, pos string) Val {
		e.nilCheck(st, args[0], pos, "nil *big.Int")
		e.frameCheckRef(f, st, args[0].Terms[0], "cell:math/big.Int", pos)
		e.bigSet(st, args[0].Terms[0], i64(e.C, args[1].Terms[0]))
		return ptrRes(e, rt, args[0].Terms[0])
	}
	callModels["(*math/big.Int).SetUint64"] = func(e *Engine, f *frame, st *State, args []Val, rt types.Type, pos string) Val {
		e.nilCheck(st, args[0], pos, "nil *big.Int")
		e.frameCheckRef(f, st, args[0].Terms[0], "cell:math/big.Int", pos)
		e.bigSet(st, args[0].Terms[0], u64(e.C, args[1].Terms[0]))
		return ptrRes(e, rt, args[0].Terms[0])
	}
	callModels["(*math/big.Int).Set"] = func(e *Engine, f *frame, st *State, args []Val, rt types.Type, pos string) Val {
		e.nilCheck(st, args[0], pos, "nil *big.Int")
		e.nilCheck(st, args[1], pos, "nil *big.Int")
		e.frameCheckRef(f, st, args[0].Terms[0], "cell:math/big.Int", pos)
		e.bigSet(st, args[0].Terms[0], e.bigVal(st, args[1].Terms[0]))
		return ptrRes(e, rt, args[0].Terms[0])
	}
	callModels["(*math/big.Int).IsInt64"] = func(e *Engine, f *frame, st *State, args []Val, rt types.Type, pos string) Val {
		c := e.C
		e.nilCheck(st, args[0], pos, "nil *big.Int")
		v := e.bigVal(st, args[0].Terms[0])
		return Val{Typ: rt, Terms: []*smt.Term{c.And(c.Op("bvsle", smt.Bool, lit(c, "-9223372036854775808"), v), c.Op("bvsle", smt.Bool, v, lit(c, "9223372036854775807")))}}
	}
	callModels["(*math/big.Int).IsUint64"] = func(e *Engine, f *frame, st *State, args []Val, rt types.Type, pos string) Val {
		c := e.C
		e.nilCheck(st, args[0], pos, "nil *big.Int")
		v := e.bigVal(st, args[0].Terms[0])
		return Val{Typ: rt, Terms: []*smt.Term{c.And(c.Op("bvsle", smt.Bool, lit(c, "0"), v), c.Op("bvsle", smt.Bool, v, lit(c, "18446744073709551615")))}}
	}
	// Int64/Uint64: "If x cannot be represented the result is undefined" - the low 64 bits of the two's complement
	// magnitude in practice; exact whenever IsInt64/IsUint64 holds, which is all the contracts rely on.
	low64 := func(e *Engine, f *frame, st *State, args []Val, rt types.Type, pos string) Val {
		e.nilCheck(st, args[0], pos, "nil *big.Int")
		v := e.bigVal(st, args[0].Terms[0])
		return Val{Typ: rt, Terms: []*smt.Term{e.C.Extend(v, 64, true)}}
	}
	callModels["(*math/big.Int).Int64"] = low64
	callModels["(*math/big.Int).Uint64"] = low64
	callModels["(*math/big.Int).Sign"] = func(e *Engine, f *frame, st *State, args []Val, rt types.Type, pos string) Val {
		c := e.C
		e.nilCheck(st, args[0], pos, "nil *big.Int")
		v := e.bigVal(st, args[0].Terms[0])
		z := lit(c, "0")
		return Val{Typ: rt, Terms: []*smt.Term{c.Ite(c.Eq(v, z), c.BVLit64(0, 64), c.Ite(c.Op("bvslt", smt.Bool, v, z), c.BVLit64(-1, 64), c.BVLit64(1, 64)))}}
	}
	callModels["(*math/big.Int).Bytes"] = func(e *Engine, f *frame, st *State, args []Val, rt types.Type, pos string) Val {
		c := e.C
		e.nilCheck(st, args[0], pos, "nil *big.Int")
		v := e.bigVal(st, args[0].Terms[0])
		// the big-endian magnitude: a byte string determined by |v| (no sign information)
		neg := c.Op("bvslt", smt.Bool, v, c.BVLit64(0, bigW))
		abs := c.Ite(neg, c.Op("bvneg", smt.BV(bigW), v), v)
		ref := e.newRef(st)
		name := elemName(types.Typ[types.Uint8], 0)
		arr := e.heapArr(st, name, smt.Array(smt.Int, bytesInner))
		st.Heap[name] = c.Store(arr, ref, c.App("big.magbytes", bytesInner, abs))
		ln := c.App("big.maglen", smt.BV(64), abs)
		e.assume(st, c.And(bvle(c, c.BVLit64(0, 64), ln), bvle(c, ln, c.BVLit64(32, 64)), c.Eq(c.Eq(ln, c.BVLit64(0, 64)), c.Eq(abs, c.BVLit64(0, bigW)))))
		return Val{Typ: rt, Terms: []*smt.Term{ref, c.BVLit64(0, 64), ln, ln}}
	}
	callModels["(*math/big.Int).String"] = func(e *Engine, f *frame, st *State, args []Val, rt types.Type, pos string) Val {
		v := e.fresh("bigstr", rt)
		e.assume(st, e.validVal(st, v))
		return v
	}
	callModels["(*math/big.Int).SetString"] = func(e *Engine, f *frame, st *State, args []Val, rt types.Type, pos string) Val {
		c := e.C
		e.nilCheck(st, args[0], pos, "nil *big.Int")
		e.frameCheckRef(f, st, args[0].Terms[0], "cell:math/big.Int", pos)
		ok := c.Fresh("setstring.ok", smt.Bool)
		nv := c.App("gs.bignum", smt.BV(bigW), args[1].Terms[0])
		old := e.bigVal(st, args[0].Terms[0])
		e.bigSet(st, args[0].Terms[0], c.Ite(ok, nv, c.Fresh("setstring.undef", smt.BV(bigW))))
		_ = old
		// on failure the returned pointer is nil
		return Val{Typ: rt, Terms: []*smt.Term{c.Ite(ok, args[0].Terms[0], c.IntLit(0)), ok}}
	}
}
