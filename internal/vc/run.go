package vc

import (
	"os"
	"fmt"
	"go/types"
	"regexp"
	"sort"
	"strings"
	"sync"
	"time"

	"verif/internal/smt"
)

var bytesInner0 = smt.Array(smt.BV(64), smt.BV(8))

// OblResult is the outcome of one obligation.
type OblResult struct {
	Name    string            `json:"name"`
	Class   string            `json:"class"`
	Status  string            `json:"status"` // discharged | failed | undecided | vacuous
	Solver  string            `json:"solver,omitempty"`
	Seconds float64           `json:"seconds"`
	Detail  string            `json:"detail,omitempty"`
	Pos     string            `json:"pos,omitempty"`
	Model   map[string]string `json:"model,omitempty"`
	Output  string            `json:"solver_output,omitempty"`
	How     string            `json:"how,omitempty"` // syntactic | batch | single
	SMTHead string            `json:"smt_head,omitempty"`
}

// finalAxioms returns the closing facts: string literals are distinct with known lengths; implements tables.
func (e *Engine) finalAxioms() []*smt.Term {
	c := e.C
	var out []*smt.Term
	if len(e.strLitOrder) > 1 {
		var ts []*smt.Term
		for _, s := range e.strLitOrder {
			ts = append(ts, e.strLits[s])
		}
		out = append(out, c.Op("distinct", smt.Bool, ts...))
	}
	for _, s := range e.strLitOrder {
		out = append(out, c.Eq(e.strLen(e.strLits[s]), c.BVLit64(int64(len(s)), 64)))
	}
	// strings are determined by identity: equal Str terms have equal lengths (function congruence gives this)
	var names []string
	for n := range e.implQueries {
		names = append(names, n)
	}
	sort.Strings(names)
	for _, n := range names {
		it := types.Unalias(e.implQueries[n]).Underlying().(*types.Interface)
		for i, t := range e.tagTypes {
			if strings.HasPrefix(typeStr(t), "fn:") || strings.HasPrefix(typeStr(t), "global:") || strings.Contains(typeStr(t), "opaque.error") {
				continue
			}
			out = append(out, c.Eq(c.App(n, smt.Bool, c.IntLit(int64(i+1))), c.BoolLit(types.Implements(t, it))))
		}
	}
	return out
}

// Solve discharges all obligations of the engine. timeoutS applies per query.
func (e *Engine) Solve(dir string, timeoutS int, all bool, par chan struct{}) []OblResult {
	axioms := e.finalAxioms()
	// defining axiom of arr.splice (byte arrays): the spliced region comes from the source, the rest is unchanged
	spl := "arr.splice." + sortTag(smt.BV(8))
	if _, used := e.C.Funcs[spl]; used {
		A := "(Array (_ BitVec 64) (_ BitVec 8))"
		e.Extra = append(e.Extra, "(assert (forall ((a "+A+") (o (_ BitVec 64)) (s "+A+") (so (_ BitVec 64)) (n (_ BitVec 64)) (i (_ BitVec 64))) (! (= (select ("+spl+" a o s so n) i) (ite (and (bvsle o i) (bvslt i (bvadd o n))) (select s (bvadd so (bvsub i o))) (select a i))) :pattern ((select ("+spl+" a o s so n) i)))))")
	}
	// strings made from bytes: string(b[off:off+n]) has exactly those bytes
	if _, used := e.C.Funcs["gs.of"]; used {
		if _, used2 := e.C.Funcs["gs.bytes"]; used2 {
			A := "(Array (_ BitVec 64) (_ BitVec 8))"
			e.Extra = append(e.Extra, "(assert (forall ((a "+A+") (o (_ BitVec 64)) (n (_ BitVec 64)) (i (_ BitVec 64))) (! (=> (and (bvsle (_ bv0 64) i) (bvslt i n)) (= (select (gs.bytes (gs.of a o n)) i) (select a (bvadd o i)))) :pattern ((select (gs.bytes (gs.of a o n)) i)))))")
		}
	}
	// fold frame (only where the contract asks for it with "foldframe"): a sum over a prefix does not depend on an
	// element at or beyond the end of the prefix. A consequence of the fold's two defining equations by induction on
	// the length; stated as an axiom (mathematical fact, listed in the assumptions) for folds over single-component
	// elements.
	if e.FoldFrame {
		var names []string
		for name := range e.C.Funcs {
			if strings.HasPrefix(name, "fold.") {
				names = append(names, name)
			}
		}
		sort.Strings(names)
		for _, name := range names {
			d := e.C.Funcs[name]
			if len(d.Args) < 3 || !strings.HasPrefix(string(d.Args[0]), "(Array (_ BitVec 64) ") || d.Args[1] != smt.BV(64) || d.Args[2] != smt.BV(64) {
				continue
			}
			es := strings.TrimSuffix(strings.TrimPrefix(string(d.Args[0]), "(Array (_ BitVec 64) "), ")")
			decl, use := "", ""
			for k, xs := range d.Args[3:] {
				decl += fmt.Sprintf(" (x%d %s)", k, xs)
				use += fmt.Sprintf(" x%d", k)
			}
			e.Extra = append(e.Extra, fmt.Sprintf("(assert (forall ((a %s) (j (_ BitVec 64)) (v %s) (o (_ BitVec 64)) (n (_ BitVec 64))%s) (! (=> (and (bvsle (_ bv0 64) n) (bvsle (bvadd o n) j)) (= (|%s| (store a j v) o n%s) (|%s| a o n%s))) :pattern ((|%s| (store a j v) o n%s)))))",
				d.Args[0], es, decl, name, use, name, use, name, use))
			e.note("MATHEMATICAL FACT used as an axiom (not proved): a fold over a prefix of a slice does not depend on elements beyond the prefix (" + name + ")")
		}
	}
	results := make([]OblResult, len(e.Obls))
	var pending []int
	for i, o := range e.Obls {
		results[i] = OblResult{Name: o.Name, Class: o.Class, Detail: o.Detail, Pos: o.Pos}
		if !o.ExpectSat && o.Cond.IsTrue() {
			results[i].Status = "discharged"
			results[i].How = "syntactic"
			continue
		}
		pending = append(pending, i)
	}
	// batch: all non-cover obligations at once, with every assumption
	var batch []int
	for _, i := range pending {
		if !e.Obls[i].ExpectSat {
			batch = append(batch, i)
		}
	}
	runScript := func(name, script string) smt.Result {
		par <- struct{}{}
		r := smt.Solve(script, dir, name, timeoutS, all)
		<-par
		if r.Status == "unsat" || r.Status == "sat" || timeoutS < 30 || os.Getenv("GOVC_NORETRY") != "" {
			return r
		}
		// not decided within the budget: on a loaded machine the slow obligations (CRC-24 equivalence, a few byte-level
		// stream clauses) can miss it for no semantic reason; one retry with twice the budget, taken alone from the
		// pool's point of view (the slot is re-acquired, so at most SolverSlots retries run at once)
		par <- struct{}{}
		defer func() { <-par }()
		r2 := smt.Solve(script, dir, name+"__retry", 2*timeoutS, all)
		r2.Seconds += r.Seconds
		return r2
	}
	// conjunctions of many obligations get a short budget: if they are not decided quickly, splitting is cheaper
	runBatch := func(name, script string) smt.Result {
		par <- struct{}{}
		defer func() { <-par }()
		t := timeoutS
		if t > 6 {
			t = 6
		}
		return smt.Solve(script, dir, name, t, false)
	}
	if _, used := e.C.Funcs["big.twosval"]; used {
		// ASSUMED (backed by the bounded stand-in varint_bounded_test.go): decoding the minimal two's-complement
		// encoding of z gives z
		B := "(_ BitVec 256)"
		e.Extra = append(e.Extra, "(assert (forall ((z "+B+")) (! (= (big.twosval (bytes.win (big.twosbytes z) (_ bv0 64) (big.twoslen z))) z) :pattern ((bytes.win (big.twosbytes z) (_ bv0 64) (big.twoslen z))))))")
		e.C.App("big.twosbytes", bytesInner0, e.C.BVLit64(0, 256))
		e.C.App("big.twoslen", smt.BV(64), e.C.BVLit64(0, 256))
		e.C.App("bytes.win", bytesInner0, e.C.App("big.twosbytes", bytesInner0, e.C.BVLit64(0, 256)), e.C.BVLit64(0, 64), e.C.BVLit64(0, 64))
	}
	var wg sync.WaitGroup
	var mu sync.Mutex
	single := func(i int) {
		o := e.Obls[i]
		mu.Lock()
		asserts := append(append([]*smt.Term{}, e.Assumes[:o.NAssume]...), axioms...)
		asserts = append(asserts, o.Lemmas...)
		var vals []*smt.Term
		asserts = append(asserts, e.C.Not(o.Cond))
		if !o.ExpectSat {
			for _, in := range o.Inputs {
				vals = append(vals, in.T)
			}
		}
		extra := e.Extra
		if o.ExpectSat {
			extra = nil // satisfiability with quantified axioms is rarely decided; the axioms only restrict models
		}
		script := e.C.Script(asserts, extra, vals)
		// quantified facts assumed from callee contracts (byte contents of what was written or read) are irrelevant to
		// most goals and slow every solver down: first try without them (fewer assumptions: an unsat answer stands)
		light := ""
		if !o.ExpectSat {
			var la []*smt.Term
			dropped := false
			la, dropped = groundParts(e.Assumes[:o.NAssume])
			if dropped {
				la = append(append(la, axioms...), o.Lemmas...)
				la = append(la, e.C.Not(o.Cond))
				light = e.C.Script(la, extra, nil)
			}
		}
		mu.Unlock()
		var r smt.Result
		if o.ExpectSat {
			r = runBatch(o.Name, script)
		} else {
			if light != "" {
				if lr := runBatch(o.Name+"__light", light); lr.Status == "unsat" {
					res := &results[i]
					res.Solver, res.Seconds, res.How, res.Status = lr.Solver, lr.Seconds, "single-light", "discharged"
					return
				}
			}
			r = runScript(o.Name, script)
		}
		res := &results[i]
		res.Solver, res.Seconds, res.How = r.Solver, r.Seconds, "single"
		switch {
		case o.ExpectSat && r.Status == "sat":
			res.Status = "discharged"
		case o.ExpectSat && r.Status == "unsat":
			res.Status = "vacuous"
			res.Output = "cover query is unsatisfiable: the assumptions exclude every execution"
		case o.ExpectSat:
			// undecided cover queries do not fail a check (they guard against vacuity only)
			res.Status = "discharged"
			res.How = "cover-undecided:" + r.Status
		case r.Status == "unsat":
			res.Status = "discharged"
		case r.Status == "sat":
			res.Status = "failed"
			res.Model = map[string]string{}
			for k, in := range o.Inputs {
				if k < len(r.Values) {
					res.Model[in.Name] = r.Values[k]
				}
			}
			res.Output = trim(r.Output, 2000)
		default:
			res.Status = "undecided"
			res.Output = fmt.Sprintf("%s: %s", r.Status, trim(r.Output, 500))
		}
	}
	// bisect: a group whose conjunction is valid is discharged by one query; otherwise split
	var bisect func(group []int)
	bisect = func(group []int) {
		defer wg.Done()
		if len(group) == 1 {
			single(group[0])
			return
		}
		mu.Lock()
		var conds []*smt.Term
		maxA := 0
		for _, i := range group {
			conds = append(conds, e.Obls[i].Cond)
			if e.Obls[i].NAssume > maxA {
				maxA = e.Obls[i].NAssume
			}
		}
		asserts := append(append([]*smt.Term{}, e.Assumes[:maxA]...), axioms...)
		asserts = append(asserts, e.C.Not(e.C.And(conds...)))
		script := e.C.Script(asserts, e.Extra, nil)
		// first without the quantified assumptions (see single)
		lightScript := ""
		{
			var la []*smt.Term
			dropped := false
			la, dropped = groundParts(e.Assumes[:maxA])
			if dropped {
				la = append(append(la, axioms...), e.C.Not(e.C.And(conds...)))
				lightScript = e.C.Script(la, e.Extra, nil)
			}
		}
		mu.Unlock()
		t0 := time.Now()
		var r smt.Result
		if lightScript != "" {
			r = runBatch(fmt.Sprintf("%s__lbatch%d_%d", e.namePrefix, group[0], len(group)), lightScript)
		}
		if r.Status != "unsat" {
			r = runBatch(fmt.Sprintf("%s__batch%d_%d", e.namePrefix, group[0], len(group)), script)
		}
		if r.Status == "unsat" {
			for _, i := range group {
				results[i].Status = "discharged"
				results[i].How = "batch"
				results[i].Solver = r.Solver
				results[i].Seconds = time.Since(t0).Seconds() / float64(len(group))
			}
			return
		}
		// the conjunction was not decided quickly: with few obligations go straight to one query each (every
		// further bisection level costs two more short-budget attempts); large groups are halved first
		if len(group) <= 64 {
			for _, i := range group {
				wg.Add(1)
				go func(i int) {
					defer wg.Done()
					single(i)
				}(i)
			}
			return
		}
		h := len(group) / 2
		wg.Add(2)
		go bisect(group[:h])
		go bisect(group[h:])
	}
	if len(batch) > 0 {
		wg.Add(1)
		go bisect(batch)
	}
	for _, i := range pending {
		if e.Obls[i].ExpectSat {
			wg.Add(1)
			go func(i int) {
				defer wg.Done()
				single(i)
			}(i)
		}
	}
	wg.Wait()
	return results
}

func trim(s string, n int) string {
	if len(s) > n {
		return s[:n] + "..."
	}
	return s
}

// MatchKey reports whether the regular expression pat matches key.
func MatchKey(pat, key string) bool {
	re, err := regexpCompile(pat)
	if err != nil {
		return strings.Contains(key, pat)
	}
	return re.MatchString(key)
}

func regexpCompile(p string) (*regexp.Regexp, error) { return regexp.Compile(p) }

// groundParts: the quantifier-free conjuncts of the assumptions (top-level conjunctions are split, so the ground part
// of an invariant such as poolInv survives when its quantified part is dropped).
func groundParts(as []*smt.Term) (out []*smt.Term, dropped bool) {
	var walk func(t *smt.Term)
	walk = func(t *smt.Term) {
		if !hasQuant(t, map[int]bool{}) {
			out = append(out, t)
			return
		}
		if t.Op == "and" {
			for _, a := range t.Args {
				walk(a)
			}
			return
		}
		dropped = true
	}
	for _, a := range as {
		walk(a)
	}
	return
}

func hasQuant(t *smt.Term, seen map[int]bool) bool {
	if seen[t.ID()] {
		return false
	}
	seen[t.ID()] = true
	if strings.HasPrefix(t.Op, "forall") {
		return true
	}
	for _, a := range t.Args {
		if hasQuant(a, seen) {
			return true
		}
	}
	return false
}
