package vc

import (
	"fmt"
	"go/types"
	"regexp"
	"strings"

	"golang.org/x/tools/go/ssa"

	"verif/internal/smt"
)

// Val is a symbolic Go value: the flattened SMT components of its type, plus, for pointers that are
// not plain "whole object" references, the meta-level address information.
type Val struct {
	Typ   types.Type
	Terms []*smt.Term
	Ptr   *PtrInfo      // non-nil for every pointer value the engine created itself
	Fn    *ssa.Function // statically known function / closure
	Binds []Val         // closure bindings
	Glob  *ssa.Global   // pointer to this package-level variable
	Known *Val          // for interfaces: the statically known boxed value (from MakeInterface), if any
}

// PtrInfo is a meta-level address: a component range inside a heap object.
//
//	Root    : the Go type of the allocation (cell family H<Root>) or, with Elem != nil, the element
//	          type of a backing array (family E<Root>)
//	Elem    : index term into the backing array (nil: plain cell)
//	Off, N  : component range of the pointee inside Root's flattened components
type PtrInfo struct {
	Root   types.Type
	IsElem bool
	Elem   *smt.Term
	Off, N int
}

func (p *PtrInfo) whole(e *Engine) bool {
	return !p.IsElem && p.Off == 0 && p.N == len(e.comps(p.Root))
}

func qual(p *types.Package) string { return p.Path() }

var aliasWord = regexp.MustCompile(`\b(byte|rune|any)\b`)

// typeStr is the canonical name of a type: identical types get identical strings (byte = uint8, rune = int32,
// any = interface{}), because heap families are keyed by it.
func typeStr(t types.Type) string {
	s := types.TypeString(types.Unalias(t), qual)
	s = strings.ReplaceAll(s, "github.com/datastax/go-cassandra-native-protocol/", "")
	s = aliasWord.ReplaceAllStringFunc(s, func(w string) string {
		switch w {
		case "byte":
			return "uint8"
		case "rune":
			return "int32"
		}
		return "interface{}"
	})
	return s
}

// comps returns the SMT sorts of the flattened components of a Go type.
func (e *Engine) comps(t types.Type) []smt.Sort {
	key := typeStr(t)
	if c, ok := e.compCache[key]; ok {
		return c
	}
	e.compCache[key] = nil // recursion guard (recursive types only through pointers, which are leaves)
	c := e.compsRaw(t)
	e.compCache[key] = c
	return c
}

func (e *Engine) compsRaw(t types.Type) []smt.Sort {
	switch u := types.Unalias(t).Underlying().(type) {
	case *types.Basic:
		switch u.Kind() {
		case types.Bool, types.UntypedBool:
			return []smt.Sort{smt.Bool}
		case types.Int8, types.Uint8:
			return []smt.Sort{smt.BV(8)}
		case types.Int16, types.Uint16:
			return []smt.Sort{smt.BV(16)}
		case types.Int32, types.Uint32, types.UntypedRune:
			return []smt.Sort{smt.BV(32)}
		case types.Int, types.Uint, types.Int64, types.Uint64, types.Uintptr, types.UntypedInt:
			return []smt.Sort{smt.BV(64)}
		case types.Float32:
			return []smt.Sort{smt.F32}
		case types.Float64, types.UntypedFloat:
			return []smt.Sort{smt.F64}
		case types.String, types.UntypedString:
			return []smt.Sort{smt.Str}
		case types.UnsafePointer, types.UntypedNil:
			return []smt.Sort{smt.Int}
		case types.Invalid:
			return nil
		}
		panic(reject("unsupported basic type " + u.String()))
	case *types.Pointer, *types.Map, *types.Chan, *types.Signature:
		return []smt.Sort{smt.Int}
	case *types.Slice:
		return []smt.Sort{smt.Int, smt.BV(64), smt.BV(64), smt.BV(64)}
	case *types.Interface:
		return []smt.Sort{smt.Int, smt.Int}
	case *types.Struct:
		var out []smt.Sort
		for i := 0; i < u.NumFields(); i++ {
			out = append(out, e.comps(u.Field(i).Type())...)
		}
		return out
	case *types.Array:
		ec := e.comps(u.Elem())
		var out []smt.Sort
		for _, s := range ec {
			out = append(out, smt.Array(smt.BV(64), s))
		}
		return out
	case *types.Tuple:
		var out []smt.Sort
		for i := 0; i < u.Len(); i++ {
			out = append(out, e.comps(u.At(i).Type())...)
		}
		return out
	}
	panic(reject("unsupported type " + t.String()))
}

// fieldRange returns the component offset and count of field i of struct type t.
func (e *Engine) fieldRange(t types.Type, i int) (int, int) {
	st := types.Unalias(t).Underlying().(*types.Struct)
	off := 0
	for k := 0; k < i; k++ {
		off += len(e.comps(st.Field(k).Type()))
	}
	return off, len(e.comps(st.Field(i).Type()))
}

func (e *Engine) tupleRange(t *types.Tuple, i int) (int, int) {
	off := 0
	for k := 0; k < i; k++ {
		off += len(e.comps(t.At(k).Type()))
	}
	return off, len(e.comps(t.At(i).Type()))
}

type rejectErr struct{ msg string }

func (r rejectErr) Error() string { return r.msg }
func reject(msg string) rejectErr { return rejectErr{msg} }

// fresh makes a value of type t from fresh constants.
func (e *Engine) fresh(hint string, t types.Type) Val {
	cs := e.comps(t)
	v := Val{Typ: t}
	for i, s := range cs {
		v.Terms = append(v.Terms, e.C.Fresh(fmt.Sprintf("%s.%d", hint, i), s))
	}
	e.wrapPtr(&v)
	return v
}

// wrapPtr attaches whole-object pointer info to a pointer-typed value made of a bare ref.
func (e *Engine) wrapPtr(v *Val) {
	if pt, ok := types.Unalias(v.Typ).Underlying().(*types.Pointer); ok && v.Ptr == nil {
		v.Ptr = e.wholePtr(pt.Elem())
	}
}

func (e *Engine) wholePtr(elem types.Type) *PtrInfo {
	if at, ok := types.Unalias(elem).Underlying().(*types.Array); ok {
		// pointer to array: the ref designates a backing array of at.Elem()
		_ = at
		return &PtrInfo{Root: elem, Off: 0, N: len(e.comps(elem))}
	}
	return &PtrInfo{Root: elem, Off: 0, N: len(e.comps(elem))}
}

// zero value of type t.
func (e *Engine) zero(t types.Type) Val {
	v := Val{Typ: t}
	for _, s := range e.comps(t) {
		v.Terms = append(v.Terms, e.zeroOf(s))
	}
	e.wrapPtr(&v)
	return v
}

func (e *Engine) zeroOf(s smt.Sort) *smt.Term {
	switch {
	case s == smt.Bool:
		return e.C.False()
	case s == smt.Int:
		return e.C.IntLit(0)
	case s.IsBV():
		return e.C.BVLit64(0, s.Width())
	case s == smt.F32:
		return e.C.Op("(_ +zero 8 24)", smt.F32)
	case s == smt.F64:
		return e.C.Op("(_ +zero 11 53)", smt.F64)
	case s == smt.Str:
		return e.strLit("")
	case s.IsArray():
		is, es := s.ArrayParts()
		_ = is
		return e.C.Op(fmt.Sprintf("(as const %s)", s), s, e.zeroOf(es))
	}
	panic("zeroOf " + string(s))
}

// strLit returns the constant for a string literal; literals are pairwise distinct with known length.
func (e *Engine) strLit(s string) *smt.Term {
	if t, ok := e.strLits[s]; ok {
		return t
	}
	t := e.C.Const(fmt.Sprintf("str!%d", len(e.strLits)), smt.Str)
	e.strLits[s] = t
	e.strLitOrder = append(e.strLitOrder, s)
	return t
}

func (e *Engine) strLen(s *smt.Term) *smt.Term {
	return e.C.App("gs.len", smt.BV(64), s)
}

func isSigned(t types.Type) bool {
	if b, ok := types.Unalias(t).Underlying().(*types.Basic); ok {
		return b.Info()&types.IsUnsigned == 0 && b.Info()&types.IsInteger != 0
	}
	return false
}

func isInteger(t types.Type) bool {
	if b, ok := types.Unalias(t).Underlying().(*types.Basic); ok {
		return b.Info()&types.IsInteger != 0
	}
	return false
}

func isFloat(t types.Type) bool {
	if b, ok := types.Unalias(t).Underlying().(*types.Basic); ok {
		return b.Info()&types.IsFloat != 0
	}
	return false
}

func isString(t types.Type) bool {
	if b, ok := types.Unalias(t).Underlying().(*types.Basic); ok {
		return b.Info()&types.IsString != 0
	}
	return false
}

func isBool(t types.Type) bool {
	if b, ok := types.Unalias(t).Underlying().(*types.Basic); ok {
		return b.Info()&types.IsBoolean != 0
	}
	return false
}

func isInterface(t types.Type) bool {
	_, ok := types.Unalias(t).Underlying().(*types.Interface)
	return ok
}

func isPointer(t types.Type) bool {
	_, ok := types.Unalias(t).Underlying().(*types.Pointer)
	return ok
}

func isSlice(t types.Type) bool {
	_, ok := types.Unalias(t).Underlying().(*types.Slice)
	return ok
}

func isMap(t types.Type) bool {
	_, ok := types.Unalias(t).Underlying().(*types.Map)
	return ok
}

func bitWidth(t types.Type) int {
	b := types.Unalias(t).Underlying().(*types.Basic)
	switch b.Kind() {
	case types.Int8, types.Uint8:
		return 8
	case types.Int16, types.Uint16:
		return 16
	case types.Int32, types.Uint32, types.UntypedRune:
		return 32
	}
	return 64
}
