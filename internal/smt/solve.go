package smt

import (
	"bytes"
	"context"
	"fmt"
	"os"
	"os/exec"
	"path/filepath"
	"strings"
	"sync"
	"time"
)

// Result of one solver race.
type Result struct {
	Status  string // unsat | sat | unknown | timeout | error
	Solver  string
	Seconds float64
	Output  string            // raw output of the deciding solver (or of the last one)
	Model   map[string]string // get-value pairs for sat
	Values  []string          // get-value values in request order
	All     map[string]string // status per solver (thorough mode)
}

type SolverSpec struct {
	Name string
	Args func(timeoutS int, file string) []string
}

var Solvers = []SolverSpec{
	{"z3-new", func(t int, f string) []string { return []string{"z3-new", fmt.Sprintf("-T:%d", t), f} }},
	{"z3", func(t int, f string) []string { return []string{"z3", fmt.Sprintf("-T:%d", t), f} }},
	{"cvc5", func(t int, f string) []string {
		return []string{"cvc5", "--produce-models", fmt.Sprintf("--tlimit=%d", t*1000), f}
	}},
}

// Solve races the installed solvers on the script. The first definite answer (sat/unsat) wins unless
// all is set, in which case every solver runs to completion and disagreement is reported as error.
func Solve(script string, dir, name string, timeoutS int, all bool) Result {
	os.MkdirAll(dir, 0o755)
	file := filepath.Join(dir, sanitize(name)+".smt2")
	if err := os.WriteFile(file, []byte(script), 0o644); err != nil {
		return Result{Status: "error", Output: err.Error()}
	}
	ctx, cancel := context.WithTimeout(context.Background(), time.Duration(timeoutS+2)*time.Second)
	defer cancel()
	type one struct {
		solver, status, out string
		secs                float64
	}
	ch := make(chan one, len(Solvers))
	var wg sync.WaitGroup
	for _, s := range Solvers {
		wg.Add(1)
		go func(s SolverSpec) {
			defer wg.Done()
			start := time.Now()
			args := s.Args(timeoutS, file)
			cmd := exec.CommandContext(ctx, args[0], args[1:]...)
			var buf bytes.Buffer
			cmd.Stdout = &buf
			cmd.Stderr = &buf
			cmd.Run()
			out := buf.String()
			first := strings.TrimSpace(strings.SplitN(out, "\n", 2)[0])
			st := "unknown"
			switch first {
			case "sat", "unsat":
				st = first
			case "timeout":
				st = "timeout"
			default:
				if ctx.Err() != nil {
					st = "timeout"
				} else if strings.Contains(first, "error") || strings.Contains(out, "(error") && first != "unknown" {
					st = "error"
				}
			}
			ch <- one{s.Name, st, out, time.Since(start).Seconds()}
		}(s)
	}
	go func() { wg.Wait(); close(ch) }()
	res := Result{Status: "unknown", All: map[string]string{}}
	decided := false
	for o := range ch {
		res.All[o.solver] = o.status
		if o.status == "sat" || o.status == "unsat" {
			if decided && res.Status != o.status {
				res.Status = "error"
				res.Output += "\nSOLVER DISAGREEMENT: " + o.solver + " says " + o.status
				continue
			}
			if !decided {
				decided = true
				res.Status, res.Solver, res.Seconds, res.Output = o.status, o.solver, o.secs, o.out
				if !all {
					cancel()
				}
			}
		} else if !decided {
			// remember the most informative non-answer
			if res.Output == "" || o.status == "error" {
				res.Solver, res.Seconds, res.Output = o.solver, o.secs, o.out
				if o.status == "error" && res.Status == "unknown" {
					res.Status = "error"
				}
			}
			if o.status == "timeout" && res.Status != "error" {
				res.Status = "timeout"
			}
			if o.secs > res.Seconds {
				res.Seconds = o.secs
			}
		}
	}
	// a solver error only matters if nobody decided
	if decided && res.Status != "error" {
		if res.Status == "sat" {
			res.Model = parseValues(res.Output)
			res.Values = parseValueList(res.Output)
		}
	} else if !decided && res.Status == "error" {
		// if some solver merely timed out / unknown, report that instead of another solver's parse error
		for _, st := range res.All {
			if st == "timeout" || st == "unknown" {
				res.Status = st
			}
		}
	}
	if res.Status == "unsat" || res.Status == "sat" {
		if os.Getenv("GOVC_KEEP_SMT") == "" {
			os.Remove(file)
		}
	}
	return res
}

func sanitize(s string) string {
	var b strings.Builder
	for _, r := range s {
		if r >= 'a' && r <= 'z' || r >= 'A' && r <= 'Z' || r >= '0' && r <= '9' || r == '.' || r == '-' || r == '_' {
			b.WriteRune(r)
		} else {
			b.WriteByte('_')
		}
	}
	out := b.String()
	if len(out) > 180 {
		out = out[:180]
	}
	return out
}

// parseValues parses "((name value) (name value))" produced by get-value.
func parseValues(out string) map[string]string {
	m := map[string]string{}
	i := strings.Index(out, "((")
	if i < 0 {
		return m
	}
	s := out[i+1:]
	// iterate over top-level parenthesised pairs
	depth := 0
	start := -1
	for j := 0; j < len(s); j++ {
		switch s[j] {
		case '(':
			if depth == 0 {
				start = j
			}
			depth++
		case ')':
			depth--
			if depth == 0 && start >= 0 {
				pair := strings.TrimSpace(s[start+1 : j])
				// name is first token (may be |quoted|)
				var name, val string
				if strings.HasPrefix(pair, "|") {
					k := strings.Index(pair[1:], "|")
					name = pair[:k+2]
					val = strings.TrimSpace(pair[k+2:])
				} else if sp := strings.IndexAny(pair, " \n\t"); sp > 0 {
					name = pair[:sp]
					val = strings.TrimSpace(pair[sp:])
				}
				if name != "" {
					m[name] = val
				}
				start = -1
			}
			if depth < 0 {
				return m
			}
		}
	}
	return m
}

// parseValueList returns the value part of each (term value) pair of a get-value answer, in order.
func parseValueList(out string) []string {
	i := strings.Index(out, "((")
	if i < 0 {
		return nil
	}
	s := out[i+1:]
	var vals []string
	depth := 0
	start := -1
	for j := 0; j < len(s); j++ {
		switch s[j] {
		case '(':
			if depth == 0 {
				start = j
			}
			depth++
		case ')':
			depth--
			if depth == 0 && start >= 0 {
				pair := strings.TrimSpace(s[start+1 : j])
				vals = append(vals, lastSexpr(pair))
				start = -1
			}
			if depth < 0 {
				return vals
			}
		}
	}
	return vals
}

// lastSexpr returns the last top-level s-expression of s.
func lastSexpr(s string) string {
	s = strings.TrimSpace(s)
	if s == "" {
		return s
	}
	if s[len(s)-1] == ')' {
		depth := 0
		for k := len(s) - 1; k >= 0; k-- {
			switch s[k] {
			case ')':
				depth++
			case '(':
				depth--
				if depth == 0 {
					return s[k:]
				}
			}
		}
		return s
	}
	if s[len(s)-1] == '|' {
		k := strings.LastIndex(s[:len(s)-1], "|")
		if k >= 0 {
			return s[k:]
		}
	}
	k := strings.LastIndexAny(s, " \n\t")
	return s[k+1:]
}
