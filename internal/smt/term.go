// Package smt is a small hash-consed term layer that prints SMT-LIB 2 scripts.
package smt

import (
	"os"
	"fmt"
	"math/big"
	"sort"
	"strings"
)

// Sort is an SMT sort rendered as its SMT-LIB text.
type Sort string

const (
	Bool Sort = "Bool"
	Int  Sort = "Int"
	Str  Sort = "Str" // uninterpreted sort of Go strings
	F32  Sort = "(_ FloatingPoint 8 24)"
	F64  Sort = "(_ FloatingPoint 11 53)"
)

func BV(w int) Sort { return Sort(fmt.Sprintf("(_ BitVec %d)", w)) }

func Array(idx, elem Sort) Sort { return Sort("(Array " + string(idx) + " " + string(elem) + ")") }

func (s Sort) IsBV() bool { return strings.HasPrefix(string(s), "(_ BitVec ") }
func (s Sort) Width() int {
	var w int
	fmt.Sscanf(string(s), "(_ BitVec %d)", &w)
	return w
}
func (s Sort) IsArray() bool { return strings.HasPrefix(string(s), "(Array ") }

// ArrayParts splits an array sort into index and element sorts.
func (s Sort) ArrayParts() (Sort, Sort) {
	str := string(s)
	str = str[len("(Array ") : len(str)-1]
	// split at top-level space
	depth := 0
	for i, c := range str {
		switch c {
		case '(':
			depth++
		case ')':
			depth--
		case ' ':
			if depth == 0 {
				return Sort(str[:i]), Sort(str[i+1:])
			}
		}
	}
	panic("bad array sort " + string(s))
}

// Term is a hash-consed node.
type Term struct {
	Op    string // operator or symbol name; for literals the literal text
	Args  []*Term
	Sort  Sort
	id    int
	Decl  bool // free constant / function symbol application whose head needs declaring
	Bound bool // bound variable of a quantifier
}

func (t *Term) ID() int { return t.id }

// Ctx owns the hash-cons table and declarations.
type Ctx struct {
	tab    map[string]*Term
	n      int
	fresh  int
	Funcs  map[string]FuncDecl // uninterpreted functions
	Sorts  map[string]bool     // uninterpreted sorts
	Consts map[string]Sort
}

type FuncDecl struct {
	Name string
	Args []Sort
	Ret  Sort
}

func NewCtx() *Ctx {
	return &Ctx{tab: map[string]*Term{}, Funcs: map[string]FuncDecl{}, Sorts: map[string]bool{}, Consts: map[string]Sort{}}
}

func (c *Ctx) mk(op string, sort Sort, args ...*Term) *Term {
	var sb strings.Builder
	sb.WriteString(op)
	sb.WriteByte('|')
	sb.WriteString(string(sort))
	for _, a := range args {
		fmt.Fprintf(&sb, ",%d", a.id)
	}
	k := sb.String()
	if t, ok := c.tab[k]; ok {
		return t
	}
	c.n++
	t := &Term{Op: op, Args: args, Sort: sort, id: c.n}
	c.tab[k] = t
	return t
}

// Const returns the named free constant (declared on first use).
func (c *Ctx) Const(name string, s Sort) *Term {
	name = sym(name)
	if old, ok := c.Consts[name]; ok && old != s {
		panic(fmt.Sprintf("constant %s redeclared with sort %s (was %s)", name, s, old))
	}
	c.Consts[name] = s
	t := c.mk(name, s)
	t.Decl = true
	return t
}

// BoundVar makes a quantifier-bound variable (unique name).
func (c *Ctx) BoundVar(hint string, s Sort) *Term {
	c.fresh++
	t := c.mk(sym(fmt.Sprintf("%s?%d", hint, c.fresh)), s)
	t.Bound = true
	return t
}

// Forall builds (forall ((v S)...) body).
func (c *Ctx) Forall(vars []*Term, body *Term) *Term {
	if body.IsTrue() {
		return body
	}
	args := append(append([]*Term{}, vars...), body)
	t := c.mk(fmt.Sprintf("forall/%d", len(vars)), Bool, args...)
	return t
}

// ForallPat builds a universally quantified formula with explicit instantiation patterns.
func (c *Ctx) ForallPat(vars []*Term, body *Term, pats ...*Term) *Term {
	if body.IsTrue() {
		return body
	}
	args := append(append([]*Term{}, vars...), body)
	args = append(args, pats...)
	return c.mk(fmt.Sprintf("forallp/%d/%d", len(vars), len(pats)), Bool, args...)
}

// Fresh returns a new free constant with a unique name.
func (c *Ctx) Fresh(hint string, s Sort) *Term {
	c.fresh++
	return c.Const(fmt.Sprintf("%s!%d", hint, c.fresh), s)
}

func sym(name string) string {
	ok := true
	for _, r := range name {
		if !(r >= 'a' && r <= 'z' || r >= 'A' && r <= 'Z' || r >= '0' && r <= '9' || strings.ContainsRune("_.!$@%^&*-+<>=/?~", r)) {
			ok = false
			break
		}
	}
	if ok && name != "" && !(name[0] >= '0' && name[0] <= '9') {
		return name
	}
	return "|" + strings.ReplaceAll(strings.ReplaceAll(name, "|", "!"), "\\", "!") + "|"
}

// App applies an uninterpreted function, declaring it on first use.
func (c *Ctx) App(name string, ret Sort, args ...*Term) *Term {
	name = sym(name)
	if _, ok := c.Funcs[name]; !ok {
		d := FuncDecl{Name: name, Ret: ret}
		for _, a := range args {
			d.Args = append(d.Args, a.Sort)
		}
		c.Funcs[name] = d
	}
	if len(args) == 0 {
		return c.Const(name, ret)
	}
	t := c.mk(name, ret, args...)
	return t
}

func (c *Ctx) True() *Term  { return c.mk("true", Bool) }
func (c *Ctx) False() *Term { return c.mk("false", Bool) }
func (c *Ctx) BoolLit(b bool) *Term {
	if b {
		return c.True()
	}
	return c.False()
}

func (c *Ctx) IntLit(v int64) *Term {
	if v < 0 {
		return c.mk(fmt.Sprintf("(- %d)", -v), Int)
	}
	return c.mk(fmt.Sprintf("%d", v), Int)
}

// BVLit builds a bit-vector literal of width w from v (taken modulo 2^w).
func (c *Ctx) BVLit(v *big.Int, w int) *Term {
	m := new(big.Int).Lsh(big.NewInt(1), uint(w))
	x := new(big.Int).Mod(v, m)
	return c.mk(fmt.Sprintf("(_ bv%s %d)", x.String(), w), BV(w))
}
func (c *Ctx) BVLit64(v int64, w int) *Term { return c.BVLit(big.NewInt(v), w) }

// IsLit reports whether t is a literal and returns its unsigned value for BV literals.
func (t *Term) BVValue() (*big.Int, bool) {
	if !strings.HasPrefix(t.Op, "(_ bv") {
		return nil, false
	}
	var s string
	var w int
	fmt.Sscanf(t.Op, "(_ bv%s %d)", &s, &w)
	v, ok := new(big.Int).SetString(s, 10)
	return v, ok
}

func (t *Term) IsTrue() bool  { return t.Op == "true" && len(t.Args) == 0 }
func (t *Term) IsFalse() bool { return t.Op == "false" && len(t.Args) == 0 }

func (c *Ctx) Not(a *Term) *Term {
	if a.IsTrue() {
		return c.False()
	}
	if a.IsFalse() {
		return c.True()
	}
	if a.Op == "not" {
		return a.Args[0]
	}
	return c.mk("not", Bool, a)
}

func (c *Ctx) And(as ...*Term) *Term {
	var out []*Term
	seen := map[int]bool{}
	for _, a := range as {
		if a.IsTrue() {
			continue
		}
		if a.IsFalse() {
			return c.False()
		}
		if a.Op == "and" {
			for _, b := range a.Args {
				if !seen[b.id] {
					seen[b.id] = true
					out = append(out, b)
				}
			}
			continue
		}
		if !seen[a.id] {
			seen[a.id] = true
			out = append(out, a)
		}
	}
	switch len(out) {
	case 0:
		return c.True()
	case 1:
		return out[0]
	}
	return c.mk("and", Bool, out...)
}

func (c *Ctx) Or(as ...*Term) *Term {
	var out []*Term
	seen := map[int]bool{}
	for _, a := range as {
		if a.IsFalse() {
			continue
		}
		if a.IsTrue() {
			return c.True()
		}
		if a.Op == "or" {
			for _, b := range a.Args {
				if !seen[b.id] {
					seen[b.id] = true
					out = append(out, b)
				}
			}
			continue
		}
		if !seen[a.id] {
			seen[a.id] = true
			out = append(out, a)
		}
	}
	switch len(out) {
	case 0:
		return c.False()
	case 1:
		return out[0]
	}
	return c.mk("or", Bool, out...)
}

func (c *Ctx) Implies(a, b *Term) *Term {
	if a.IsTrue() {
		return b
	}
	if a.IsFalse() || b.IsTrue() {
		return c.True()
	}
	return c.mk("=>", Bool, a, b)
}

func (c *Ctx) Eq(a, b *Term) *Term {
	if a == b {
		return c.True()
	}
	if a.Sort != b.Sort {
		panic(fmt.Sprintf("Eq sort mismatch: %s : %s vs %s : %s", c.String(a), a.Sort, c.String(b), b.Sort))
	}
	if a.Sort == F32 || a.Sort == F64 {
		// structural equality on floats is "=", IEEE equality is fp.eq; callers choose
		return c.mk("=", Bool, a, b)
	}
	if av, ok := a.BVValue(); ok {
		if bv, ok2 := b.BVValue(); ok2 {
			return c.BoolLit(av.Cmp(bv) == 0)
		}
	}
	if a.id > b.id {
		a, b = b, a
	}
	return c.mk("=", Bool, a, b)
}

func (c *Ctx) Ite(cond, a, b *Term) *Term {
	if cond.IsTrue() {
		return a
	}
	if cond.IsFalse() {
		return b
	}
	if a == b {
		return a
	}
	if a.Sort != b.Sort {
		panic(fmt.Sprintf("Ite sort mismatch: %s vs %s", a.Sort, b.Sort))
	}
	if a.Sort == Bool {
		if a.IsTrue() && b.IsFalse() {
			return cond
		}
		if a.IsFalse() && b.IsTrue() {
			return c.Not(cond)
		}
	}
	return c.mk("ite", a.Sort, cond, a, b)
}

// Op builds a generic application of a built-in operator with result sort s. Bit-vector operations on literals are
// folded, so that loops over constants unroll into straight-line terms.
func (c *Ctx) Op(op string, s Sort, args ...*Term) *Term {
	if op == "bvadd" && s.IsBV() && len(args) >= 2 && !noNormSum {
		if t := c.normSum(s, args); t != nil {
			return t
		}
	}
	if len(args) == 2 {
		if a, ok := args[0].BVValue(); ok {
			if b, ok2 := args[1].BVValue(); ok2 {
				if t := c.foldBV(op, s, a, b, args[0].Sort.Width()); t != nil {
					return t
				}
			}
		}
	}
	if len(args) == 1 && (op == "bvnot" || op == "bvneg") {
		if a, ok := args[0].BVValue(); ok {
			w := s.Width()
			m := new(big.Int).Lsh(big.NewInt(1), uint(w))
			if op == "bvnot" {
				return c.BVLit(new(big.Int).Sub(new(big.Int).Sub(m, big.NewInt(1)), a), w)
			}
			return c.BVLit(new(big.Int).Sub(m, a), w)
		}
	}
	if len(args) == 1 && strings.HasPrefix(op, "(_ extract ") {
		if a, ok := args[0].BVValue(); ok {
			var hi, lo int
			fmt.Sscanf(op, "(_ extract %d %d)", &hi, &lo)
			return c.BVLit(new(big.Int).Rsh(a, uint(lo)), hi-lo+1)
		}
	}
	return c.mk(op, s, args...)
}

func signedOf(v *big.Int, w int) *big.Int {
	if v.Bit(w-1) == 1 {
		return new(big.Int).Sub(v, new(big.Int).Lsh(big.NewInt(1), uint(w)))
	}
	return v
}

func (c *Ctx) foldBV(op string, s Sort, a, b *big.Int, w int) *Term {
	r := new(big.Int)
	switch op {
	case "bvadd":
		return c.BVLit(r.Add(a, b), w)
	case "bvsub":
		return c.BVLit(r.Sub(a, b), w)
	case "bvmul":
		return c.BVLit(r.Mul(a, b), w)
	case "bvand":
		return c.BVLit(r.And(a, b), w)
	case "bvor":
		return c.BVLit(r.Or(a, b), w)
	case "bvxor":
		return c.BVLit(r.Xor(a, b), w)
	case "bvshl":
		if b.Cmp(big.NewInt(int64(w))) >= 0 {
			return c.BVLit(big.NewInt(0), w)
		}
		return c.BVLit(r.Lsh(a, uint(b.Int64())), w)
	case "bvlshr":
		if b.Cmp(big.NewInt(int64(w))) >= 0 {
			return c.BVLit(big.NewInt(0), w)
		}
		return c.BVLit(r.Rsh(a, uint(b.Int64())), w)
	case "bvult":
		return c.BoolLit(a.Cmp(b) < 0)
	case "bvule":
		return c.BoolLit(a.Cmp(b) <= 0)
	case "bvugt":
		return c.BoolLit(a.Cmp(b) > 0)
	case "bvuge":
		return c.BoolLit(a.Cmp(b) >= 0)
	case "bvslt":
		return c.BoolLit(signedOf(a, w).Cmp(signedOf(b, w)) < 0)
	case "bvsle":
		return c.BoolLit(signedOf(a, w).Cmp(signedOf(b, w)) <= 0)
	case "bvsgt":
		return c.BoolLit(signedOf(a, w).Cmp(signedOf(b, w)) > 0)
	case "bvsge":
		return c.BoolLit(signedOf(a, w).Cmp(signedOf(b, w)) >= 0)
	}
	return nil
}

func (c *Ctx) Select(arr, idx *Term) *Term {
	is, es := arr.Sort.ArrayParts()
	if idx.Sort != is {
		panic(fmt.Sprintf("select index sort %s, want %s", idx.Sort, is))
	}
	// read-over-write simplification for syntactically equal / distinct-literal indices
	for arr.Op == "store" {
		if arr.Args[1] == idx {
			return arr.Args[2]
		}
		if distinctLits(arr.Args[1], idx) {
			arr = arr.Args[0]
			continue
		}
		break
	}
	if arr.Op == "ite" && len(arr.Args) == 3 {
		// push the read into the branches so that read-over-write and quantifier patterns apply
		return c.Ite(arr.Args[0], c.Select(arr.Args[1], idx), c.Select(arr.Args[2], idx))
	}
	return c.mk("select", es, arr, idx)
}

func distinctLits(a, b *Term) bool {
	if av, ok := a.BVValue(); ok {
		if bv, ok2 := b.BVValue(); ok2 {
			return av.Cmp(bv) != 0
		}
	}
	if a.Sort == Int && isIntLit(a) && isIntLit(b) {
		return a.Op != b.Op
	}
	return false
}

func isIntLit(t *Term) bool {
	if len(t.Args) != 0 || t.Decl {
		return false
	}
	return t.Op != "" && (t.Op[0] >= '0' && t.Op[0] <= '9' || strings.HasPrefix(t.Op, "(- "))
}

func (c *Ctx) Store(arr, idx, v *Term) *Term {
	is, es := arr.Sort.ArrayParts()
	if idx.Sort != is || v.Sort != es {
		panic(fmt.Sprintf("store sorts %s[%s]:=%s", arr.Sort, idx.Sort, v.Sort))
	}
	return c.mk("store", arr.Sort, arr, idx, v)
}

// Extend sign- or zero-extends a bit-vector to width w (or truncates).
func (c *Ctx) Extend(t *Term, w int, signed bool) *Term {
	// extract-of-extend and extend-of-extend of the same kind collapse onto the innermost operand
	if len(t.Args) == 1 {
		inner := t.Args[0]
		if strings.HasPrefix(t.Op, "(_ sign_extend ") && (signed || w <= t.Sort.Width()) && w >= inner.Sort.Width() {
			return c.Extend(inner, w, true)
		}
		if strings.HasPrefix(t.Op, "(_ zero_extend ") && (!signed || w <= t.Sort.Width()) && w >= inner.Sort.Width() {
			if w > t.Sort.Width() && signed {
				// zero-extended value is non-negative: sign extension equals zero extension
				return c.Extend(inner, w, false)
			}
			return c.Extend(inner, w, false)
		}
	}
	cw := t.Sort.Width()
	switch {
	case cw == w:
		return t
	case cw > w:
		if v, ok := t.BVValue(); ok {
			return c.BVLit(v, w)
		}
		return c.mk(fmt.Sprintf("(_ extract %d 0)", w-1), BV(w), t)
	}
	if v, ok := t.BVValue(); ok {
		if signed && v.Bit(cw-1) == 1 {
			v = new(big.Int).Sub(v, new(big.Int).Lsh(big.NewInt(1), uint(cw)))
		}
		return c.BVLit(v, w)
	}
	if signed {
		return c.mk(fmt.Sprintf("(_ sign_extend %d)", w-cw), BV(w), t)
	}
	return c.mk(fmt.Sprintf("(_ zero_extend %d)", w-cw), BV(w), t)
}

// String renders a term fully inlined (for diagnostics and small terms).
func (c *Ctx) String(t *Term) string {
	if len(t.Args) == 0 {
		return t.Op
	}
	var sb strings.Builder
	sb.WriteByte('(')
	sb.WriteString(t.Op)
	for _, a := range t.Args {
		sb.WriteByte(' ')
		sb.WriteString(c.String(a))
	}
	sb.WriteByte(')')
	return sb.String()
}

// Script renders a check-sat script asserting all given formulas, sharing sub-terms through define-fun.
// extraDecls are raw SMT-LIB lines placed after declarations (axioms, define-funs).
func (c *Ctx) Script(asserts []*Term, extra []string, getModel []*Term) string {
	var sb strings.Builder
	sb.WriteString("(set-option :produce-models true)\n(set-logic ALL)\n")
	// collect reachable terms
	refs := map[int]int{}
	var order []*Term
	var visit func(t *Term)
	visit = func(t *Term) {
		refs[t.id]++
		if refs[t.id] > 1 {
			return
		}
		for _, a := range t.Args {
			visit(a)
		}
		order = append(order, t)
	}
	for _, a := range asserts {
		visit(a)
	}
	for _, a := range getModel {
		visit(a)
	}
	usedSorts := map[string]bool{}
	usedConsts := map[string]Sort{}
	usedFuncs := map[string]FuncDecl{}
	noteSort := func(s Sort) {
		for name := range c.Sorts {
			if strings.Contains(string(s), name) {
				usedSorts[name] = true
			}
		}
	}
	for _, t := range order {
		noteSort(t.Sort)
		if len(t.Args) == 0 {
			if s, ok := c.Consts[t.Op]; ok {
				usedConsts[t.Op] = s
			}
		} else if d, ok := c.Funcs[t.Op]; ok {
			usedFuncs[t.Op] = d
			for _, s := range d.Args {
				noteSort(s)
			}
		}
	}
	for _, e := range extra {
		for name := range c.Sorts {
			if strings.Contains(e, name) {
				usedSorts[name] = true
			}
		}
		for name, d := range c.Funcs {
			if len(d.Args) > 0 && strings.Contains(e, "("+name+" ") {
				usedFuncs[name] = d
			}
		}
	}
	var names []string
	for n := range usedSorts {
		names = append(names, n)
	}
	sort.Strings(names)
	for _, n := range names {
		fmt.Fprintf(&sb, "(declare-sort %s 0)\n", n)
	}
	names = names[:0]
	for n := range usedConsts {
		names = append(names, n)
	}
	sort.Strings(names)
	for _, n := range names {
		fmt.Fprintf(&sb, "(declare-fun %s () %s)\n", n, usedConsts[n])
	}
	names = names[:0]
	for n := range usedFuncs {
		names = append(names, n)
	}
	sort.Strings(names)
	for _, n := range names {
		d := usedFuncs[n]
		if len(d.Args) == 0 {
			continue
		}
		var as []string
		for _, a := range d.Args {
			as = append(as, string(a))
		}
		fmt.Fprintf(&sb, "(declare-fun %s (%s) %s)\n", n, strings.Join(as, " "), d.Ret)
	}
	for _, e := range extra {
		sb.WriteString(e)
		sb.WriteByte('\n')
	}
	// terms containing bound variables are never shared
	hasBound := map[int]bool{}
	for _, t := range order {
		if t.Bound {
			hasBound[t.id] = true
		}
		for _, a := range t.Args {
			if hasBound[a.id] {
				hasBound[t.id] = true
			}
		}
	}
	// shared non-leaf terms get a name
	name := map[int]string{}
	var render func(t *Term) string
	render = func(t *Term) string {
		if n, ok := name[t.id]; ok {
			return n
		}
		if len(t.Args) == 0 {
			return t.Op
		}
		var b strings.Builder
		if strings.HasPrefix(t.Op, "forallp/") {
			var nv, np int
			fmt.Sscanf(t.Op, "forallp/%d/%d", &nv, &np)
			b.WriteString("(forall (")
			for _, v := range t.Args[:nv] {
				fmt.Fprintf(&b, "(%s %s)", v.Op, v.Sort)
			}
			if len(t.Args) == nv+1 {
				// no pattern was found: a plain quantifier ("(! body)" without attributes is not valid SMT-LIB)
				b.WriteString(") ")
				b.WriteString(render(t.Args[nv]))
				b.WriteByte(')')
				return b.String()
			}
			b.WriteString(") (! ")
			b.WriteString(render(t.Args[nv]))
			for _, p := range t.Args[nv+1:] {
				b.WriteString(" :pattern (")
				b.WriteString(render(p))
				b.WriteString(")")
			}
			b.WriteString("))")
			return b.String()
		}
		if strings.HasPrefix(t.Op, "forall/") {
			nv := len(t.Args) - 1
			b.WriteString("(forall (")
			for _, v := range t.Args[:nv] {
				fmt.Fprintf(&b, "(%s %s)", v.Op, v.Sort)
			}
			b.WriteString(") ")
			b.WriteString(render(t.Args[nv]))
			b.WriteByte(')')
			return b.String()
		}
		b.WriteByte('(')
		b.WriteString(t.Op)
		for _, a := range t.Args {
			b.WriteByte(' ')
			b.WriteString(render(a))
		}
		b.WriteByte(')')
		return b.String()
	}
	for _, t := range order {
		if len(t.Args) > 0 && refs[t.id] > 1 && !hasBound[t.id] {
			body := render(t)
			n := fmt.Sprintf("$t%d", t.id)
			fmt.Fprintf(&sb, "(define-fun %s () %s %s)\n", n, t.Sort, body)
			name[t.id] = n
		}
	}
	for _, a := range asserts {
		fmt.Fprintf(&sb, "(assert %s)\n", render(a))
	}
	sb.WriteString("(check-sat)\n")
	if len(getModel) > 0 {
		sb.WriteString("(get-value (")
		for _, g := range getModel {
			sb.WriteString(render(g))
			sb.WriteByte(' ')
		}
		sb.WriteString("))\n")
	}
	return sb.String()
}

// Subst replaces every occurrence of from by to in t (rebuilding the term).
func (c *Ctx) Subst(t, from, to *Term) *Term {
	memo := map[int]*Term{}
	var rec func(x *Term) *Term
	rec = func(x *Term) *Term {
		if x == from {
			return to
		}
		if len(x.Args) == 0 {
			return x
		}
		if r, ok := memo[x.id]; ok {
			return r
		}
		changed := false
		args := make([]*Term, len(x.Args))
		for i, a := range x.Args {
			args[i] = rec(a)
			if args[i] != a {
				changed = true
			}
		}
		r := x
		if changed {
			r = c.mk(x.Op, x.Sort, args...)
		}
		memo[x.id] = r
		return r
	}
	return rec(t)
}

// off by default: measured on encodeBodyUncompressed:post:len, the normal form made the query four times slower
// (74 s -> 317 s); kept behind a switch for experiments
var noNormSum = os.Getenv("GOVC_NORMSUM") == ""

// normSum builds a sum in a normal form modulo associativity and commutativity: nested sums are flattened, literals
// are added up, the remaining operands are ordered by creation. Two byte counts that add the same terms in a
// different order or grouping (an encoder's running count and a length function's total) then are the SAME term,
// and their equality needs no reasoning about 64-bit adders - the one thing all three solvers are slow at.
// Sums that mention a quantifier-bound variable directly keep their shape (trigger selection matches on it).
func (c *Ctx) normSum(s Sort, args []*Term) *Term {
	w := s.Width()
	var ops []*Term
	konst := new(big.Int)
	var walk func(t *Term) bool
	walk = func(t *Term) bool {
		if t.Bound {
			return false
		}
		if v, ok := t.BVValue(); ok {
			konst.Add(konst, v)
			return true
		}
		if t.Op == "bvadd" && t.Sort == s {
			for _, a := range t.Args {
				if !walk(a) {
					return false
				}
			}
			return true
		}
		ops = append(ops, t)
		return true
	}
	for _, a := range args {
		if !walk(a) {
			return nil
		}
	}
	sort.SliceStable(ops, func(i, j int) bool { return ops[i].id < ops[j].id })
	m := new(big.Int).Lsh(big.NewInt(1), uint(w))
	konst.Mod(konst, m)
	if konst.Sign() != 0 || len(ops) == 0 {
		ops = append(ops, c.BVLit(konst, w))
	}
	if len(ops) == 1 {
		return ops[0]
	}
	return c.mk("bvadd", s, ops...)
}
